#!/usr/bin/env python3
"""Generates /verif/MANIFEST.json from the table below (single source of truth)."""
import json
import os

VERIF = os.path.dirname(os.path.dirname(os.path.abspath(__file__)))
ALL = ["C%02d" % i for i in range(1, 21)]

# pid -> (category, technique, text, note, design_ref)
A_NOTE = "Trusted: the reference link model (core/refmodels.py, written from the adapter documentation), the harness components (thin subclasses of the public SDK classes) and the generic fingerprint (never drops a field). Bounds: see evidence 'bound'. Times on an hour/half-hour lattice."
A_TECH = "explicit-state breadth-first model checking of the real Composition.run (every next_time is an environment choice, snapshots by deepcopy of the live composition, de-duplication by canonical fingerprint) plus stateless depth-first exploration of the same configurations (one uninterrupted run() per execution); reference link model as oracle on every transition"

CHECKS = {
    "C01": (
        "model_checking",
        A_TECH,
        "All schedules the driver can produce for the enumerated coupling graphs/adapter chains/listing orders within the horizon are explored exhaustively on the implementation itself (states and transitions are those of live finam objects); on every update the reference link model decides whether an upstream component lacks data, every pull is compared with the unlimited-history reference value, and any time/no-data error or out-of-range request is a violation.",
        A_NOTE,
        "DESIGN.md section 3 (engine A) and section 4, C01",
    ),
    "C02": (
        "model_checking",
        A_TECH,
        "Same exhaustive state graphs as C01 plus all splittings of a total delay over 2-3 delay adapters; on every update transition the updated component must be justified by the reference (least advanced, or upstream of it along lacks-data edges) and the time reaching each source output must equal the reference's accumulated shifted time.",
        A_NOTE,
        "DESIGN.md section 3 (engine A) and section 4, C02",
    ),
    "C03": (
        "model_checking",
        A_TECH + "; life-cycle automaton and adapter finalize counters kept in the explored state",
        "Every execution of run(end_time) for the enumerated valid compositions is explored (all step choices up to the end time, 7-10 end times per family in choice mode and the full half-hour end-time lattice with fixed cyclic step lists); termination, end reached, strictly increasing times, no update after the end, the life-cycle language of every component and exactly-once finalisation of every adapter are judged on every transition / terminal state.",
        A_NOTE,
        "DESIGN.md section 4, C03",
    ),
    "C04": (
        "model_checking",
        A_TECH + "; expected outcome from an independent cycle analysis of the configuration",
        "All rings of 2-3 (choice mode) and 4-5 (fixed step lists) components with 17 kinds of delay material on every link position/subset, chords, tails, a pull-based node and all/rotated listing orders are executed exhaustively; an unbroken cycle must end in the circular-coupling error (never hang, recursion, TypeError, time/data error or completion), a sufficiently delayed one must complete with the C01/C02 monitors green on every transition. Connect-phase cycles (rings of 2-3 components whose initial data or output metadata depend on the predecessor, all mode combinations and listing orders) must end in the circular-coupling error naming exactly the stuck components; a call cap turns a hang into a violation. Also rings through a pull-based component that reaches its consumer over two parallel links (one delayed, one not / equal delays) and configurations explored after a first run in the same process.",
        A_NOTE + " Delay adapters upstream of a push-notified adapter are not counted as delay material (they cannot take effect).",
        "DESIGN.md section 4, C04",
    ),
    "C05": (
        "model_checking",
        "exhaustive enumeration of all component listing orders x all link creation orders for every configuration, each executed on the real Composition (fixed cyclic step lists) and compared differentially with the identity order",
        "For every configuration of the stated domain (<=4 components, <=4 links, chains over the adapter alphabet without DelayToPush) every permutation of the component list and of link creation is run; exception class, exchanged metadata, final times and the full (time,value) series of every consumer must be identical. The connect phase is covered the same way with the dependency shapes of C06 (outcome, stuck list, infos, initial values, initial publications under all listing and link orders). A purely differential oracle, no expected values.",
        "Trusted: the harness components; identity order as reference. Cycles with positive-but-insufficient delay are excluded (C04 accepts either outcome there). Order-dependent failures caused by the open pull-based-component findings are listed per configuration class in known_findings.json.",
        "DESIGN.md section 4, C05",
    ),
    "C06": (
        "model_checking",
        "exhaustive enumeration of dependency shapes of the connect phase, each executed through the real Composition.connect under all component listing orders and link creation orders; least-fixpoint reference of derivable exchange items and a per-call status rule as oracles; call cap for termination",
        "Every shape of metadata / initial-data dependency within the bound is run under every schedule the iterative connect can take (all listing and link orders); the outcome must be success with complete infos, initial publications at composition start and own start and exact initial values, or a circular-coupling error naming exactly the components the fixpoint model cannot complete; every single connect call's reported status is checked against what was observably exchanged. Also: transfer rules added after the connector was created (each composition preceded by one with such a relay in the same process) and initial data that is refused once and handed in again.",
        "Trusted: fixpoint model and harness nodes in harness/cnode.py; <=3 components (<=2 slots per side), offsets {0,1,2}; helper layer: <=3 slots (quick) / <=4 (thorough) on one component with scripted peers.",
        "DESIGN.md section 3 (engine B) and section 4, C06",
    ),
    "C07": (
        "exploration",
        "bounded-exhaustive enumeration of producer/consumer metadata states (complete sub-products over set/unset time, grid kinds, units, mask kinds, extra keys; one or two consumers; direct, Scale and metadata-rewriting adapters; a relay with transfer rules; all listing orders) through the real Composition.connect against an independent agreement predicate",
        "Each sub-product is enumerated completely: where the ends agree on a direct/Scale link connect() must succeed with a complete input info that describes the delivered locations, has convertible units and carries the other side's values for unset fields in both directions; where they conflict it must raise FinamMetaDataError with no data at any consumer; any other exception class is reported. Also grid objects with a history: three persistent grid objects serve all sequences of 3-4 events (data-location change through the public setter, link directly / through Scale / through RegridNearest in a new composition of the same process); every attempt must end like the same attempt on freshly built grids.",
        "Trusted: the agreement predicate in checks/c07.py. The five-field full product is not crossed (sub-products: grid x mask, time x units x extra key, grid x units x time). Cases the statement does not classify (producer mask unset, NONE vs empty mask, order-dependent fan-out fills) accept either outcome.",
        "DESIGN.md section 4, C07",
    ),
    "C08": (
        "model_checking",
        "explicit-state BFS to a fixpoint over all push/pull interleavings on a direct link (states modulo time translation, unlimited-history reference) plus exhaustive product payload form x grid kind x unit pair and all re-publication forms on real Output/Input objects",
        "History part: every reachable normalised state of a direct link with 1-2 consumers and unit conversion is visited; each pull must return the nearest publication (either neighbour at a mid-point) or be refused outside the needed range, with exact conversion factor, shape and units. Product part: all payload forms x grids x compatible unit pairs (and incompatible/wrongly shaped ones that must be refused) and all memory-sharing re-publications.",
        "Trusted: reference model; hand-written conversion table for an 8-unit catalogue; rtol 1e-12.",
        "DESIGN.md section 4, C08",
    ),
    "C09": (
        "model_checking",
        "explicit-state breadth-first search to a fixpoint over all interleavings of push/pull events on a real Output with 1-4 consumers (direct, behind pass-through, push-based and delay adapters, fan-out behind a shared adapter), states fingerprinted modulo time translation, unlimited-history reference as oracle on every transition",
        "The normalised reachable state space (lag of the slowest consumer bounded by a window) is finite and explored completely, so the verdict covers runs of arbitrary length within the window: every pull equals the unlimited-history reference (value or refusal) and after every pull the retained history obeys the stated bound.",
        "Trusted: reference model (core/refmodels.py); time-translation abstraction (values depend on the last two gaps only; Info.time is not part of the post-connect state) argued in DESIGN.md; half-hour request lattice, gaps {1,2,3} h.",
        "DESIGN.md section 3 (engine C) and section 4, C09",
    ),
    "C10": (
        "fault_enumeration",
        "exhaustive enumeration of memory limits (every prefix of publications kept in RAM plus off-by-one around each threshold) x slot kind x payload kind x step pair, each executed through the real Composition and compared differentially with the unlimited run; directory listing observed around every update",
        "Every memory limit that changes which publications are kept in RAM is enumerated for every buffering slot kind and payload kind; the consumer's complete series must equal the unlimited run and the spill directory must be the only place files appear and be empty after run().",
        "Trusted: the unlimited run as reference (its correctness is C08/C11/C12's business); os.walk listings; horizon 6 h (quick) / 9 h (thorough).",
        "DESIGN.md section 4, C10",
    ),
    "C15": (
        "exploration",
        "bounded-exhaustive enumeration of all ordered layout pairs (order x axes_reversed x per-axis direction) in 1-3 D for cell/point data and uniform/rectilinear/ESRI grids against coordinate arithmetic, including delivery over a real Output->Input link",
        "Finite product enumerated completely: canonical round trip and xyz-increasing indexing, compatible_with against equality of independently computed data-point sets (plus different geometry/location/dimension/class), and on a real link (with/without time axis, plain/masked) every value and mask bit must arrive at the same physical coordinate. Also one output read by two inputs with layouts of their own (all 2-D layout triples, either order of metadata exchange).",
        "Trusted: the arithmetic coordinate reference shared with C14; lengths (4,), (3,4), (2,3,4).",
        "DESIGN.md section 4, C15",
    ),
    "C16": (
        "exploration",
        "bounded-exhaustive enumeration of source/target grid pairs (all layout pairs, grid classes, locations) and ALL masks of small grids through the real RegridNearest/RegridLinear adapters on a link; brute-force nearest-neighbour and convex-hull/affine-field reference",
        "Nearest: every unmasked target must carry the value of a Euclidean-nearest unmasked source (any on ties), masked targets stay masked, poison values under the source mask must never appear; identity between layouts. Linear (unstructured / masked sources): affine fields reproduced inside the hull of the unmasked sources, weights in [0,1] and zero on masked sources (unit vectors), outside masked or nearest-filled. Also two inputs behind one regridding adapter (masked and unmasked sources and targets).",
        "Trusted: brute-force reference; scipy Delaunay for hull membership (targets within 1e-7 of the boundary excluded); data_points order verified by C14. Grids with <=18 data locations; the structured unmasked linear path is outside the statement.",
        "DESIGN.md section 4, C16",
    ),
    "C17": (
        "exploration",
        "bounded-exhaustive enumeration of all ordered unit pairs of a 71-unit hand-written catalogue under three memo regimes plus all query sequences of length <=3 over a sub-catalogue, against a reference table that does not use pint",
        "Every ordered pair is queried through compatible_units, equivalent_units, to_units, prepare and a real link, cold / after the reversed pair / fully warm; every query sequence up to length 3 from a cold memo must give the reference answer at every position, so no answer depends on what was asked before. Also all query sequences of length <= 3 over equivalent units spelled through other units (mm, L/m2, Hz, 1/s) with prepare as a fourth query.",
        "Trusted: the hand-written table (exponent vectors, exact rational factors, offsets); rtol 1e-9; angles dimensionless.",
        "DESIGN.md section 4, C17",
    ),
    "C18": (
        "exploration",
        "bounded-exhaustive enumeration: all shapes <=6/8 elements x orders x ALL masks for the compression round trip, all payload forms x layouts for prepare under a fixed mask, all 7x7 mask specification pairs x layout pairs through a real exchange_info judged by physical mask equality",
        "Finite products enumerated completely on the real helpers and slots; the acceptance oracle compares the sets of masked physical coordinates computed from the grids' coordinate arithmetic.",
        "Trusted: coordinate reference of C14; producer kinds the statement does not classify are accepted either way.",
        "DESIGN.md section 4, C18",
    ),
    "C19": (
        "exploration",
        "bounded-exhaustive enumeration of link topologies (source kind x adapter chain x sink kind x fan-out position x missing component x unconnected input) on the real Composition.connect against an independent predicate of the five rejection rules; reported link list vs created links",
        "Finite product enumerated completely: connect() must raise FinamConnectError exactly when the predicate rejects, and then before any component connect callback ran; otherwise validation passes and on success metadata['links'] equals the multiset of created links.",
        "Trusted: the predicate in checks/c19.py; chains of <=2 (quick) / <=3 (thorough) adapters over five adapter kinds.",
        "DESIGN.md section 4, C19",
    ),
    "C20": (
        "model_checking",
        A_TECH + "; plus exhaustive event sequences on a static output and an exhaustive product for WeightedSum",
        "Static slots: every push/pull sequence up to depth 4/5 with all request-time kinds on real slots. Pull-based components: all schedules of compositions with one or two pull-based components are explored, each provider invocation must carry exactly the (delay-shifted) request time of the consumer and the C01 monitors stay green. WeightedSum: all unit combinations x consumer step pairs x listing orders against an arithmetic reference. Also the mergers with one (thorough: two) transient fault on a link into the merger (k-th request refused once before/after the source was asked, request repeated).",
        A_NOTE,
        "DESIGN.md section 4, C20",
    ),
    "C11": (
        "model_checking",
        "explicit-state BFS to a fixpoint over all interleavings of publications (irregular gaps) and non-decreasing requests on a quarter-hour lattice on the real time interpolation adapters, states modulo time translation, exact-Fraction reference with unlimited history",
        "All reachable normalised states of NextTime, PreviousTime, LinearTime and StepTime(0,.25,.5,.75,1) behind a real Output are explored (scalar and gridded payloads, two adapters on one output, adapter behind adapter); every answer must equal the mathematical definition, every out-of-range request must be refused, and because the reference never forgets, any effect of buffer eviction on a later answer is a mismatch.",
        "Trusted: reference definitions in core/refmodels.py; bounded lag window; values depend on the last two gaps.",
        "DESIGN.md section 4, C11",
    ),
    "C12": (
        "model_checking",
        "explicit-state BFS to a fixpoint over all interleavings of publications and consumer pulls (every partition of the period on a half-hour lattice) on the real AvgOverTime/SumOverTime adapters, exact-Fraction integral of the reference interpolant as oracle",
        "All reachable normalised states for Avg/Sum x {linear, step 0,.25,.5,1} x {per_time, absolute} x source units {mm/h, mm, 1}: each pull must equal the exact integral over [previous pull, pull] (divided by the elapsed time for averages), in units of source x time (reduced). Hence totals are partition independent and averages lie within the contributing range.",
        "Trusted: exact integral in core/refmodels.py; repeated pulls at the same time are outside the statement.",
        "DESIGN.md section 4, C12",
    ),
    "C13": (
        "model_checking",
        "explicit-state BFS over all push/pull interleavings on real chains of 1-3 delay adapters (fixpoint for fixed delays, depth-bounded for history-dependent adapters); the time argument observed at the source output and the delivered value are compared with the reference composition of the shift maps",
        "Every chain of DelayFixed/DelayToPull/DelayToPush (mixed with Scale) from the stated alphabet is driven through all request sequences within the bound; requested time at the source = max(t-d,start) / n-th previous request - extra / min(t,newest), composed along the chain. The scheduler clause is decided by C02's request-time monitor on the same chains inside Composition.run. Also Info objects of a connected composition re-used by a second, later composition (connected or run in between) and chains explored after a first use in the same process.",
        "Trusted: reference shift maps; start time = declared time of the source output; depth bounds 6/5/4 (quick) 9/8/7 (thorough) for chains with DelayToPull/DelayToPush.",
        "DESIGN.md section 4, C13",
    ),
    "C14": (
        "exploration",
        "bounded-exhaustive enumeration of all grid layouts and of all read/copy/set-location operation sequences up to depth 3/4 against coordinate arithmetic and a freshly built grid",
        "Every structured layout (class x dim x axis lengths x order x reversed x direction x location) is enumerated completely and judged against pure coordinate arithmetic; every operation sequence up to the depth bound is run on the real grid objects and compared with a fresh grid (differential). Finite spaces enumerated completely, no sampling.",
        "Trusted: numpy arithmetic in the reference; axis lengths <= 3 (quick) / 4 (thorough); crs unset.",
        "DESIGN.md section 4, C14",
    ),
}

NOT_YET = "check not built yet (work in progress, see DESIGN.md section 4)"


# widening added after the later mutation rounds (appended to the level text; details in DESIGN.md section 0 and in each evidence file's rule)
ADDED = {
    "C01": " Also: other time scales (100 us / one week per lattice unit), long fixed-sequence runs, a producer 64x finer than its consumer, producers whose publication is refused now and then, components with their own clock.",
    "C02": " Also: other time scales and long fixed-sequence runs as in C01; three-component lines with the full step menu.",
    "C03": " Also: components that finish early, the library's own components (CsvReader/CsvWriter/generators/CallbackComponent on a calendar step/debug consumers) under the same oracle; drivers that keep updating or spin without updating are reported as hangs (tight update caps, counted time reads). Pre-run histories: connect() refused 0-2 times, missing link created afterwards through new adapters, separate connect(); every adapter finalized exactly once.",
    "C05": " Also: components that learn their time while connecting, StackTime, consumers with metadata of their own.",
    "C06": " Also: CONNECTED is judged independently of the connector's bookkeeping (every consumer must have exchanged), masked initial data of late producers; producers whose initial value is still improving (the value of the publishing call reaches every consumer).",
    "C07": " Also: five grid orientations, rectilinear node sets of equal extent, index-based masks, with locations computed by the check itself.",
    "C08": " Also: refused publications (an array sharing memory with retained data handed in for a newer time) as history events: afterwards the newest publication is still the old one.",
    "C09": " Also: other time scales; the data handed out by earlier pulls must not change on later pulls.",
    "C10": " Also: static outputs, one time stamp published twice, quantities in foreign units, two compositions on one spill location; compositions run back to back in one process until spill file names are re-used (process-wide state); refused aliasing publications.",
    "C11": " Also: a 1-microsecond lattice, a one-week unit, scripted histories of 1100-2600 publications, history-only back requests, earlier results kept and compared.",
    "C12": " Also: other time scales, a producer 64x finer than the consumer, history-only back requests (a refused request must not move the window).",
    "C13": " Also: calendar delays (relativedelta months/years, leap years, month ends) on the real composition; masked payloads; requests running ahead of the source (refused and repeated pulls).",
    "C14": " Also: size sweep to 130-200 nodes, odd spacings, integer axes, coordinate arrays shared between axes or reused for a second grid, refused location changes.",
    "C15": " Also: grids with a copy/relocate history; two data sets through one transformation object.",
    "C16": " Also: 1200-cell grids, 64-bit integer payloads, earlier results kept and compared, NaN in the first data set of a linear regridding.",
    "C17": " Also: query histories that start with refused out-of-catalogue pairs.",
    "C18": " Also: integer masks, NaN/inf payloads, one mask object updated in place between round trips, a report dictionary reused after a refused check.",
    "C19": " Also: chains of 3-4 adapters, link creation orders, a third consumer branch, retry/repair histories after a rejected connect (also through new adapters), link requests refused before connect, the link list after run().",
    "C20": " Also: zero weights and NaN, static slots under a memory limit, mergers whose first request comes from the first update.",
}


def main():
    checks = []
    for pid in ALL:
        if pid not in CHECKS:
            continue
        cat, tech, text, note, ref = CHECKS[pid]
        text = text + ADDED.get(pid, "")
        checks.append(
            dict(
                property_id=pid,
                quick_cmd=f"/venv/bin/python /verif/mc/run.py {pid} --tier quick",
                thorough_cmd=f"/venv/bin/python /verif/mc/run.py {pid} --tier thorough",
                evidence_file=f"/verif/evidence/{pid}.json",
                replay_cmd_template="/venv/bin/python /verif/mc/replay.py {path}",
                engine="mc",
                level_claimed=dict(category=cat, text=text, design_ref=ref),
                level_note=note,
                technique=tech,
            )
        )
    man = dict(
        version=1,
        setup_cmd="/venv/bin/python /verif/mc/selftest.py",
        hooks=dict(
            guard="FINAM_VERIF",
            enable="no source hooks exist: checks import /repo/src (PYTHONPATH) and observe through harness subclasses of the public SDK classes; the guard name is reserved but unused",
            baseline_off_cmd="cd /repo && /venv/bin/python -m pytest -ra -q -p no:cacheprovider --timeout=900 --continue-on-collection-errors",
            source_commits=[],
            add_only=True,
        ),
        engines=[
            dict(
                name="mc",
                path="/verif/mc",
                serves_properties=sorted(CHECKS),
                kind_free_text="hand-written explicit-state / bounded-exhaustive explorer over the real finam objects (python), reference models as oracles",
            )
        ],
        checks=checks,
        not_applicable=[dict(property_id=p, reason=NOT_YET) for p in ALL if p not in CHECKS],
        notes="All checks run /venv/bin/python on /repo/src as it is in the working tree. known_findings.json lists genuine defects (open/fixed).",
    )
    with open(os.path.join(VERIF, "MANIFEST.json"), "w") as f:
        json.dump(man, f, indent=1)
    print("wrote MANIFEST.json with", len(checks), "checks")


if __name__ == "__main__":
    main()
