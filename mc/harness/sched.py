"""Engine A: explicit-state search over the real Composition.run.

Harness components (VComp: time-stepped, step length is an environment choice; PComp: pull-based),
monitored slots/adapters (subclasses that record and call super()), a Run object that owns one live
composition plus the reference links and monitor automata, and the breadth-first explorer.
"""
import collections
import copy
import logging
from fractions import Fraction as Fr

import numpy as np

from core.canon import fingerprint
from core.common import H, T0, compose, fm, hrs, set_time_unit
from core import refmodels as R

from finam.interfaces import ComponentStatus as CS

D = fm.adapters
E = fm.errors


class Pause(BaseException):
    """raised out of run() when the environment has to choose the next step length"""

    def __init__(self, name):
        self.name = name


class Hang(BaseException):
    pass


SPIN_CAP = 300000
WATCHDOG_S = 600  # wall-clock fallback for a run() call that neither finishes nor reaches any harness callback


class World:
    cur = None  # the Run currently executing (harness objects report to it)


def W():
    return World.cur


# ---------------------------------------------------------------- monitored slots / adapters
class MonOutput(fm.Output):
    def push_data(self, data, time):
        super().push_data(data, time)
        if self.has_targets:
            W().on_publish(self, time, data)

    def get_data(self, time, target):
        W().on_get(self, time, target)
        return super().get_data(time, target)


class MonCallbackOutput(fm.CallbackOutput):
    pass


def _mon_adapter(cls):
    class Mon(cls):
        fin_count = 0

        def _finalize(self):
            self.fin_count = min(self.fin_count + 1, 3)
            super()._finalize()

    Mon.__name__ = "Mon" + cls.__name__
    Mon.__qualname__ = Mon.__name__
    return Mon


MON = {c: _mon_adapter(c) for c in (D.Scale, D.LinearTime, D.NextTime, D.PreviousTime, D.StepTime, D.AvgOverTime, D.SumOverTime, D.DelayFixed, D.DelayToPull, D.DelayToPush)}
# make the dynamically created classes importable for deepcopy/pickle
for _c in MON.values():
    globals()[_c.__name__] = _c


class KeepLast(fm.Adapter):
    """a user-style pass-through adapter that keeps its last delivered data set in an attribute called `data`"""

    fin_count = 0

    def _get_data(self, time, target):
        d = self.pull_data(time, target)
        self.data = d
        return d

    def _finalize(self):
        self.fin_count = min(self.fin_count + 1, 3)


def mk_adapter(tok):
    k = tok[0]
    if k == "K":
        return KeepLast()
    if k == "S":
        return MON[D.Scale](float(tok[1]))
    if k == "L":
        return MON[D.LinearTime]()
    if k == "N":
        return MON[D.NextTime]()
    if k == "V":
        return MON[D.PreviousTime]()
    if k == "T":
        return MON[D.StepTime](step=float(tok[1]))
    if k == "A":
        return MON[D.AvgOverTime](step=None if tok[1] is None else float(tok[1]))
    if k == "M":
        return MON[D.SumOverTime](step=None if tok[1] is None else float(tok[1]), per_time=bool(tok[2]))
    if k == "F":
        return MON[D.DelayFixed](H(tok[1]))
    if k == "P":
        return MON[D.DelayToPull](steps=tok[1], additional_delay=H(tok[2] if len(tok) > 2 else 0))
    if k == "U":
        return MON[D.DelayToPush]()
    if k == "R":  # identity regridding (same grid on both sides), a stateless pass-through adapter
        return D.RegridNearest()
    raise ValueError(tok)


def tok_class(chain):
    return "".join(t[0] for t in chain) or "-"


BUFFERING = set("LNVTAM")
DELAYS = set("FPU")

LIFE = {  # life-cycle automaton: state -> {callback: next state}
    "created": {"initialize": "initialized"},
    "initialized": {"connect": "connecting"},
    "connecting": {"connect": "connecting", "validate": "validated"},
    "validated": {"update": "validated", "finalize": "finalized"},
    "finalized": {},
}


def val(d):
    if hasattr(d, "magnitude"):
        d = d.magnitude
    return float(np.asarray(d).ravel()[0])


class VBase:
    """time-stepped harness component; publishes its own time (hours) on every output"""

    def __init__(self, name, menu, fixed=None, ins=(), outs=(), start=0, pull_initial=True, finish_at=None, late_time=False, reject_at=()):
        super().__init__()
        self.reject_at = tuple(reject_at)  # hours at which the component hands in data that the output refuses; it catches the error and goes on
        self.late_time = late_time  # the component learns its time only while connecting (time is None before)
        self.finish_at = finish_at  # the component declares itself FINISHED once it reached this time (hours)
        self.declared_finished = False
        self._name = name
        self.menu = list(menu)
        self.fixed = list(fixed) if fixed else None
        self.ins, self.outs = list(ins), list(outs)
        self.start = start
        self._time = None if late_time else T0 + H(start)
        self.pending = None
        self.nupd = 0
        self.pull_initial = pull_initial
        self.life = "created"

    def _life(self, cb):
        self.life = LIFE.get(self.life, {}).get(cb, "BAD:" + self.life + ">" + cb)

    def _next_time(self):
        if self.pending is None:
            if self.fixed:
                self.pending = self.fixed[self.nupd % len(self.fixed)]
            else:
                self.pending = W().choose(self)
        return self.time + H(self.pending)

    def _initialize(self):
        self._life("initialize")
        for n in self.ins:
            self.inputs.add(name=n, time=self.time, grid=fm.NoGrid(), units=None)
        for n in self.outs:
            self.outputs.add(io=MonOutput(name=n, time=self.time, grid=fm.NoGrid(), units=""))
        self.create_connector(pull_data=self.ins if self.pull_initial else [])

    def value(self):
        return float(hrs(self.time))

    def _connect(self, st):
        self._life("connect")
        if self._time is None:
            self._time = T0 + H(self.start)
        pulled = [n for n in (self.ins if self.pull_initial else []) if self.connector.in_data.get(n) is None]
        self.try_connect(st, push_data={n: self.value() for n in self.outs})
        for n in pulled:
            d = self.connector.in_data.get(n)
            if d is not None:
                W().on_pull(self, n, hrs(st), val(d), initial=True)

    def _validate(self):
        self._life("validate")

    def _update(self):
        self._life("update")
        w = W()
        nt = self._next_time()
        if self.declared_finished:
            w.v("C03.updated_after_finished", dict(kind="updated_after_finished"), f"{self.name} declared FINISHED at {float(hrs(self._time))} and is updated again")
        w.on_update_entry(self, nt)
        self.pending = None
        if self.fixed:
            self.nupd += 1
        for n in self.ins:
            w.on_pull_start(self, n)
            try:
                d = self.inputs[n].pull_data(nt)
            except (E.FinamTimeError, E.FinamNoDataError) as e:
                w.on_pull_error(self, n, hrs(nt), e)
                raise
            w.on_pull(self, n, hrs(nt), val(d))
        self._time = nt
        for n in self.outs:
            if float(hrs(self._time)) in self.reject_at:
                try:
                    self.outputs[n].push_data(np.zeros(3), self.time)  # wrong shape for a slot without grid
                except E.FinamDataError:
                    w.stats["rejected_pushes"] += 1
                continue
            self.outputs[n].push_data(self.value(), self.time)
        if self.finish_at is not None and hrs(self._time) >= self.finish_at:
            self.status = CS.FINISHED
            self.declared_finished = True
        w.on_update_exit(self)

    def _finalize(self):
        self._life("finalize")


class VComp(VBase, fm.TimeComponent):
    """the usual case: derived from the sdk's TimeComponent"""

    # every read of the component's time is counted: a driver that spins without updating anybody (no harness callback runs) is
    # reported as a hang after SPIN_CAP reads since the last update instead of blocking the check
    @property
    def time(self):
        w = World.cur
        if w is not None:
            w.spin += 1
            if w.spin > SPIN_CAP:
                raise Hang()
        return fm.TimeComponent.time.fget(self)

    @time.setter
    def time(self, t):
        fm.TimeComponent.time.fset(self, t)


class IVComp(VBase, fm.ITimeComponent, fm.Component):
    """a component with its own clock: implements the ITimeComponent interface directly (allowed by the documentation),
    it is NOT an instance of the sdk's TimeComponent"""

    @property
    def time(self):
        return self._time

    @property
    def next_time(self):
        return self._next_time()


class PComp(fm.Component):
    """pull-based harness component: every output returns the sum of its inputs at the requested time (+ k/4 for output k)"""

    def __init__(self, name, ins=(), outs=(), slot_time=0):
        super().__init__()
        self._name = name
        self.ins, self.outs = list(ins), list(outs)
        self.slot_time = T0 + H(slot_time)
        self.life = "created"

    def _life(self, cb):
        self.life = LIFE.get(self.life, {}).get(cb, "BAD:" + self.life + ">" + cb)

    def _initialize(self):
        self._life("initialize")
        for n in self.ins:
            self.inputs.add(name=n, time=self.slot_time, grid=fm.NoGrid(), units=None)
        for n in self.outs:
            self.outputs.add(MonCallbackOutput(callback=self._get, name=n, time=self.slot_time, grid=fm.NoGrid(), units=""))
        self.create_connector(pull_data=self.ins)

    def _connect(self, st):
        self._life("connect")
        pulled = [n for n in self.ins if self.connector.in_data.get(n) is None]
        self.try_connect(st)
        for n in pulled:
            d = self.connector.in_data.get(n)
            if d is not None:
                W().on_pull(self, n, hrs(st), val(d), initial=True)

    def _get(self, caller, time):
        off = self.outs.index(caller.name) * 0.25
        if self.status not in (CS.VALIDATED, CS.UPDATED):
            ds = [self.connector.in_data.get(n) for n in self.ins]
            if any(d is None for d in ds):
                return None
            return sum(val(d) for d in ds) + off
        w = W()
        w.on_provider_enter(self, caller.name, time)
        try:
            tot = 0.0
            for n in self.ins:
                w.on_pull_start(self, n)
                try:
                    d = self.inputs[n].pull_data(time)
                except (E.FinamTimeError, E.FinamNoDataError) as e:
                    w.on_pull_error(self, n, hrs(time), e)
                    raise
                w.on_ppull(self, n, hrs(time))
                tot += val(d)
        finally:
            w.on_provider_exit(self)
        return tot + off

    def _validate(self):
        self._life("validate")

    def _update(self):
        self._life("update")

    def _finalize(self):
        self._life("finalize")


def err_class(e):
    m = str(e)
    if "in the future" in m:
        return "future"
    if "in the past" in m:
        return "past"
    if "out of range" in m:
        return "range"
    if "zero-length" in m:
        return "zero-length"
    if isinstance(e, E.FinamNoDataError):
        return "nodata"
    if "already finished" in m:
        return "dependency-finished"
    return "other"


KEY_SKIP = frozenset(["run"])


class Log(dict):
    """harness-side log: shared between snapshots, never fingerprinted"""

    def __deepcopy__(self, memo):
        return self


class Shared(dict):
    """immutable configuration shared between snapshots (not deep-copied)"""

    def __deepcopy__(self, memo):
        return self


class RefP:
    """reference for a pull-based output: sum of the component's inputs at the requested time (+ k/4).
    Holds the Run by reference (no closure) so that deep copies point to the copied Run."""

    def __init__(self, run, pname, oname):
        self.run, self.pname, self.oname = run, pname, oname
        self.targets = []

    def get(self, t):
        run = self.run
        p = run.comps[self.pname]
        off = Fr(p.outs.index(self.oname), 4)
        if p.status not in (CS.VALIDATED, CS.UPDATED):
            sets = [run.pinit.get((self.pname, n)) for n in p.ins]
            if any(s is None for s in sets):
                raise R.Refuse("nodata")
        else:
            sets = [run.ref[run._link_of(self.pname, n)].pull(t) for n in p.ins]
        return R.vmap(lambda *vs: sum(vs, Fr(0)) + off, *sets)


class Run:
    """one live composition + reference links + monitors (deep-copied as a whole for snapshots)"""

    def __init__(self, cfg, script=None, default=False):
        World.cur = self
        set_time_unit(cfg.get("unit_us", 3600 * 10**6))  # the whole lattice can be re-run at another time scale
        self.default = default  # stateless mode: when the script is exhausted take the first menu entry instead of pausing
        self.choices = Log()
        self.choices["made"] = []
        self.choices["menus"] = []
        self.cfg = cfg = Shared(cfg)
        self.viol = []  # (clause, fp, what)
        self.script = list(script) if script is not None else None
        self.stats = collections.Counter()
        self.updates = 0
        self.spin = 0
        self.cap = cfg.get("update_cap", 400)
        self.ctx = []  # call context stack: (component name, pull time in hours)
        self.in_update = None
        starts = [c.get("start", 0) for c in cfg["comps"] if c["kind"] == "T"]
        self.t_start = min(starts) if starts else 0
        self.comps = {}
        for c in cfg["comps"]:
            if c["kind"] == "T":
                self.comps[c["name"]] = (IVComp if c.get("own_clock") else VComp)(c["name"], c.get("menu", [1]), c.get("fixed"), c.get("ins", ()), c.get("outs", ()), c.get("start", 0), c.get("pull_initial", True), c.get("finish_at"), c.get("late_time", False), c.get("reject_at", ()))
            else:
                self.comps[c["name"]] = PComp(c["name"], c.get("ins", ()), c.get("outs", ()), slot_time=self.t_start)
        self.links = [Shared(l) for l in cfg["links"]]
        self.c = compose([self.comps[n] for n in cfg.get("order") or [c["name"] for c in cfg["comps"]]])
        self.sources = {}
        self.ref = {}
        self.in_links = collections.defaultdict(list)
        self.adapters = []
        trunk_end = {}
        for li in cfg.get("link_order") or range(len(self.links)):
            l = self.links[li]
            src, dst = self.comps[l["src"]], self.comps[l["dst"]]
            ch = src.outputs[l["so"]]
            if l.get("trunk"):
                # stateless pass-through adapters shared by several links (fan-out behind them); built with the first link that uses them
                if l["trunk"] not in trunk_end:
                    for tok in cfg["trunks"][l["trunk"]]:
                        a = mk_adapter(tok)
                        self.adapters.append(a)
                        ch = ch >> a
                    trunk_end[l["trunk"]] = ch
                ch = trunk_end[l["trunk"]]
            for tok in l["chain"]:
                a = mk_adapter(tok)
                a.v_link = li
                self.adapters.append(a)
                ch = ch >> a
            inp = dst.inputs[l["di"]]
            inp.v_link = li
            ch >> inp
        for li, l in enumerate(self.links):
            src = self.comps[l["src"]]
            key = (l["src"], l["so"])
            if key not in self.sources:
                if isinstance(src, VBase):
                    self.sources[key] = R.RefSource()
                else:
                    self.sources[key] = RefP(self, l["src"], l["so"])
            init = Fr(src.start) if isinstance(src, VBase) else Fr(self.t_start)
            full = [tuple(t) for t in (cfg["trunks"][l["trunk"]] if l.get("trunk") else [])] + [tuple(t) for t in l["chain"]]
            self.ref[li] = R.RefLink(self.sources[key], full, init)
            self.in_links[l["dst"]].append(li)
        self.last_pull = {}  # link -> last pull time of its consumer
        self.out_links = collections.defaultdict(list)
        for li, l in enumerate(self.links):
            self.out_links[(l["src"], l["so"])].append(li)
        toks = [t for l in self.links for t in l["chain"]]
        self.has_dtp = any(t[0] == "P" for t in toks)
        self.dmax = sum(Fr(t[1]) for t in toks if t[0] == "F")
        self.upd_pulls = {}
        self.series = Log()  # consumer input -> [(t, value)] (harness log, not part of the state)
        self.pinit = {}  # (pcomp, input) -> expected set of the initial pull
        self.end = cfg["end"]
        self.outcome = None

    def _link_of(self, cname, iname):
        for li in self.in_links[cname]:
            if self.links[li]["di"] == iname:
                return li
        raise KeyError((cname, iname))

    # ---- environment choice
    def choose(self, comp):
        if self.script is not None and self.script:
            x = self.script.pop(0)
        elif self.default:
            x = comp.menu[0]
        else:
            raise Pause(comp.name)
        self.choices["made"].append(x)
        self.choices["menus"].append(list(comp.menu))
        return x

    # ---- observers
    def v(self, clause, fp, what):
        self.viol.append((clause, fp, what))

    def on_publish(self, out, time, data):
        owner = self._owner(out)
        src = self.sources.get((owner, out.name))
        if src is not None:
            try:
                src.publish(hrs(time), Fr(val(data)).limit_denominator(10**6))
            except R.Refuse:
                pass

    def _owner(self, out):
        for n, c in self.comps.items():
            if out.name in c.outputs and c.outputs[out.name] is out:
                return n
        return None

    def on_get(self, out, time, target):
        if self.in_update is None:
            return
        t = hrs(time)
        self.stats["gets_in_update"] += 1
        # C01(ii): no extrapolation - request within the retained range of a component-owned output
        li = getattr(target, "v_link", None)
        if out.data:
            lo, hi = hrs(out.data[0][0]), hrs(out.data[-1][0])
            if not (lo <= t <= hi):
                cause = self.cause(li, t) if li is not None and isinstance(target, fm.Input) and not isinstance(target, fm.Adapter) else "scheduler"
                fp = dict(kind="request_not_servable", cause=cause)
                if cause == "scheduler":
                    fp.update(kind="request_outside_retained_range", side="future" if t > hi else "past", chain=tok_class(self.links[li]["chain"]) if li is not None else "?")
                self.v("C01.range", fp, f"get_data({float(t)}) on {out.name} retained [{float(lo)},{float(hi)}] during update of {self.in_update}")
        # C02/C13: the time reaching the source equals the reference's shifted time
        if li is None or not isinstance(target, fm.Input) or isinstance(target, fm.Adapter):
            return
        if not self.ctx:
            return
        cname, ct = self.ctx[-1]
        if self.links[li]["dst"] != cname:
            return
        exp = self.ref[li].request_time_at_source(ct)
        if exp is not None and exp != t:
            self.v("C13.request_time", dict(kind="request_time_at_source", chain=tok_class(self.links[li]["chain"])), f"link {self.links[li]['src']}->{cname} chain {self.links[li]['chain']}: source asked for {float(t)}, reference {float(exp)} (consumer pull at {float(ct)})")

    def on_provider_enter(self, p, oname, time):
        t = hrs(time)
        self.stats["provider_calls"] += 1
        exp = None
        if self.ctx:
            cname, ct = self.ctx[-1]
            cands = [li for li in self.in_links[cname] if self.links[li]["src"] == p.name and self.links[li]["so"] == oname]
            exps = [self.ref[li].request_time_at_source(ct) for li in cands]
            if exps and t not in exps:
                self.v("C20.provider_time", dict(kind="provider_time", chain=tok_class(self.links[cands[0]]["chain"])), f"provider {p.name}.{oname} invoked for {float(t)}, consumer {cname} requested {[float(e) for e in exps if e is not None]} (pull at {float(ct)})")
        self.ctx.append((p.name, t))

    def on_provider_exit(self, p):
        self.ctx.pop()

    def lacking(self, cname, t):
        """time components upstream of cname that lack data for a pull of all inputs at t (reference link model)"""
        res = []
        for li in self.in_links[cname]:
            l = self.links[li]
            req = self.ref[li].required(t)
            if req is None:
                continue
            src = self.comps[l["src"]]
            if isinstance(src, VBase):
                ot = hrs(src.outputs[l["so"]].time)
                if ot is None or ot < req:
                    res.append(l["src"])
            else:
                res.extend(self.lacking(l["src"], req))
        return res

    def on_update_entry(self, U, nt):
        self.spin = 0
        self.updates += 1
        self.stats["updates"] += 1
        if self.updates > self.cap:
            raise Hang()
        tcs = {n: c for n, c in self.comps.items() if isinstance(c, VBase)}
        times = {n: hrs(c._time) for n, c in tcs.items()}
        t_next = hrs(nt)
        desc = lambda: f"update of {U.name} {float(times[U.name])}->{float(t_next)} at times { {n: float(t) for n, t in times.items()} } pending { {n: c.pending for n, c in tcs.items()} }"  # noqa
        # C03: strictly increasing time, no update once everybody reached the end
        if not t_next > times[U.name]:
            self.v("C03.time_not_increasing", dict(kind="time_not_increasing"), desc())
        active = {n: t for n, t in times.items() if not tcs[n].declared_finished}
        if self.end > self.t_start and all(t >= self.end for t in active.values()):
            self.v("C03.update_after_end", dict(kind="update_after_end"), desc() + f" end={self.end}")
        # C01(iii): U lacks nothing
        lu = self.lacking(U.name, t_next)
        if lu:
            cls = sorted({tok_class(self.links[li]["chain"]) for li in self.in_links[U.name]})
            self.v("C01.lacking", dict(kind="updated_while_upstream_lacks_data", chains=cls), desc() + f" lacking {lu}")
        # C02: U is the furthest back or upstream of it along lacking edges
        mn = min(active.values())  # components that declared themselves finished no longer count as "furthest back"
        if len({float(t) for t in times.values()}) < len(times):
            self.stats["updates_with_time_ties"] += 1
        seen, stack = set(), [n for n, t in active.items() if t == mn and tcs[n].pending is not None]
        while stack:
            x = stack.pop()
            if x in seen:
                continue
            seen.add(x)
            if tcs[x].pending is not None:
                stack.extend(self.lacking(x, times[x] + Fr(tcs[x].pending)))
        if U.name not in seen:
            self.v("C02.unjustified", dict(kind="unjustified_update"), desc() + f" justified set {sorted(seen)}")
        elif times[U.name] != mn:
            self.stats["updates_of_upstream_dependency"] += 1
        self.in_update = U.name
        self.upd_pulls = {}
        self.ctx = [(U.name, t_next)]

    def on_update_exit(self, U):
        self.in_update = None
        self.ctx = []
        self.upd_pulls = {}

    def cause(self, li, t):
        """structural class of a failing request on link li at time t: known limitations of pull-based components
        (several pulls of one link within a single consumer update) vs. anything else (the scheduler's business)"""
        l = self.links[li]
        if isinstance(self.comps[l["dst"]], PComp):
            if li in self.last_pull and t < self.last_pull[li]:
                return "request_older_than_previous_request_on_link_into_pull_based_component"
            if self.upd_pulls.get(li, 0) >= 2 and any(tok[0] == "P" for tok in l["chain"]):
                return "delay_to_pull_asked_twice_in_one_update_via_pull_based_component"
        return "scheduler"

    def on_ppull(self, comp, iname, t):
        self.last_pull[self._link_of(comp.name, iname)] = t

    def on_pull_start(self, comp, iname):
        li = self._link_of(comp.name, iname)
        self.upd_pulls[li] = self.upd_pulls.get(li, 0) + 1

    def on_pull_error(self, comp, iname, t, e):
        if getattr(e, "v_reported", False):
            return
        e.v_reported = True
        li = self._link_of(comp.name, iname)
        cause = self.cause(li, t)
        fp = dict(kind="request_not_servable", cause=cause)
        if cause == "scheduler":
            fp.update(kind="pull_error_in_update", error=type(e).__name__, why=err_class(e), chain=tok_class(self.links[li]["chain"]))
        self.v("C01.pull_error", fp, f"{comp.name}.{iname} pull at {float(t)} over chain {self.links[li]['chain']} failed during update of {self.in_update}: {type(e).__name__}: {str(e)[:120]}")

    def on_pull(self, comp, iname, t, got, initial=False):
        li = self._link_of(comp.name, iname)
        l = self.links[li]
        self.stats["pulls"] += 1
        if self.cfg.get("record_series"):
            self.series.setdefault(comp.name + "." + iname, []).append((float(t), round(got, 9)))
        try:
            exp = self.ref[li].pull(t)
        except R.Refuse as r:
            if not initial:
                self.v("C01.served_but_unavailable", dict(kind="served_but_reference_refuses", why=r.why, chain=tok_class(l["chain"])), f"{comp.name}.{iname} pull at {float(t)} chain {l['chain']} served {got} but the reference refuses ({r.why})")
            return
        self.last_pull[li] = t
        self.prune(li)
        if isinstance(comp, PComp) and initial:
            self.pinit[(comp.name, iname)] = exp
        if not R.accepts(exp, got):
            self.v("C01.value", dict(kind="wrong_value", chain=tok_class(l["chain"]), initial=initial), f"{comp.name}.{iname} pull at {float(t)} chain {l['chain']} got {got}, reference {sorted(float(x) for x in exp)}")
        elif exp is not R.ANY:
            self.stats["values_checked"] += 1

    def link_floor(self, li):
        """lower bound of all future pull times on link li (None = unknown)"""
        l = self.links[li]
        if isinstance(self.comps[l["dst"]], VBase):
            return self.last_pull.get(li)
        if self.has_dtp or li not in self.last_pull:
            return None
        return min(hrs(c._time) for c in self.comps.values() if isinstance(c, VBase)) - self.dmax

    def prune(self, li):
        """bounded reference history: forget what no future request can select (argued in DESIGN.md, engine A)"""
        key = (self.links[li]["src"], self.links[li]["so"])
        src = self.sources[key]
        if not isinstance(src, R.RefSource):
            self.ref[li].prune(self.link_floor(li))
            return
        floors = [self.ref[lj].prune(self.link_floor(lj)) for lj in self.out_links[key]]
        if all(f is not None for f in floors):
            src.prune(min(floors))

    # ---- execution
    def resume(self):
        """(re-)enters the real run(); returns ('pause', comp) | ('done',) | ('circular', msg) | ('exc', cls, msg) | ('hang',)"""
        World.cur = self
        set_time_unit(self.cfg.get("unit_us", 3600 * 10**6))
        import signal

        def _alarm(_s, _f):
            raise Hang()

        old = None
        try:
            old = signal.signal(signal.SIGALRM, _alarm)
            signal.alarm(WATCHDOG_S)
        except ValueError:  # not in the main thread
            old = None
        try:
            return self._resume()
        finally:
            if old is not None:
                signal.alarm(0)
                signal.signal(signal.SIGALRM, old)

    def _resume(self):
        try:
            self.spin = 0
            self.c.run(end_time=T0 + H(self.end))
            self.outcome = ("done",)
            self.check_terminal()
        except Pause as p:
            return ("pause", p.name)
        except Hang:
            self.outcome = ("hang",)
            self.v("C03.hang", dict(kind="update_cap_exceeded"), f"more than {self.cap} updates before end {self.end}")
        except E.FinamCircularCouplingError as e:
            self.outcome = ("circular", str(e)[:300], "run" if self.c._is_connected else "connect")
        except RecursionError as e:
            self.outcome = ("exc", "RecursionError", "")
        except Exception as e:  # noqa
            phase = "run" if all(c.life in ("validated", "finalized") for c in self.comps.values()) else "connect"
            self.outcome = ("exc", type(e).__name__, str(e)[:200], phase, err_class(e))
        return self.outcome

    def check_terminal(self):
        end = Fr(self.end)
        for n, c in self.comps.items():
            if isinstance(c, VBase):
                if hrs(c._time) < end and not c.declared_finished:
                    self.v("C03.end_not_reached", dict(kind="end_not_reached"), f"{n} at {float(hrs(c._time))} < end {self.end}")
            if c.life != "finalized":
                self.v("C03.lifecycle", dict(kind="lifecycle", state=c.life.split(":")[0]), f"{n} life-cycle automaton in {c.life} after run()")
            if c.status != CS.FINALIZED:
                self.v("C03.status", dict(kind="final_status", status=c.status.name), f"{n} status {c.status.name}")
        for a in self.adapters:
            if a.fin_count != 1:
                self.v("C03.adapter_finalize", dict(kind="adapter_finalize_count", count=a.fin_count), f"{a.name} finalized {a.fin_count} times")

    def key(self):
        return fingerprint((self.comps, self.c, self.ref, self.pinit, self.updates >= self.cap), skip_keys=KEY_SKIP)


def explore(cfg, max_states=None):
    """BFS over all environment choices; returns dict(states, transitions, terminals, outcomes, violations[(clause, fp, what, path)])"""
    r0 = Run(cfg)
    seen = {r0.key()}
    q = collections.deque([(r0, [])])
    res = dict(states=1, transitions=0, terminals=0, outcomes=collections.Counter(), violations=[], stats=collections.Counter(), capped=None)
    while q:
        r, path = q.popleft()
        out = r.resume()
        for clause, fp, what in r.viol:
            res["violations"].append((clause, fp, what, list(path)))
        r.viol = []
        if out[0] == "pause":
            comp = r.comps[out[1]]
            for x in comp.menu:
                r2 = copy.deepcopy(r)
                r2.comps[out[1]].pending = x
                res["transitions"] += 1
                k = r2.key()
                if k not in seen:
                    seen.add(k)
                    r2.stats = collections.Counter()
                    q.append((r2, path + [x]))
        else:
            res["terminals"] += 1
            res["outcomes"][out[0] if out[0] != "exc" else "exc:" + out[1]] += 1
            if out[0] not in ("done",):
                res.setdefault("nonfinal", []).append((out, list(path)))
        res["stats"].update(r.stats)
        r.stats = collections.Counter()
        if max_states and len(seen) > max_states:
            res["capped"] = dict(max_states=max_states, queue_left=len(q))
            break
    res["states"] = len(seen)
    return res


def signature(cfg):
    """fixed-sequence mode: one deterministic execution; returns the outcome signature used by C05"""
    r = Run(dict(cfg, record_series=True), script=[])
    out = r.resume()
    infos = {}
    for n, c in r.comps.items():
        for sn, slot in list(c.inputs.items()) + list(c.outputs.items()):
            try:
                i = slot.info
                infos[n + "." + sn] = (repr(i.grid), str(i.units), str(i.time), str(i.mask))
            except Exception as e:  # noqa
                infos[n + "." + sn] = "ERR:" + type(e).__name__
    if out[0] == "done":
        o = ("done",)
    elif out[0] == "circular":
        o = ("FinamCircularCouplingError",)
    elif out[0] == "exc":
        o = ("exc", out[1])
    else:
        o = (out[0],)
    times = {n: None if c._time is None else float(hrs(c._time)) for n, c in r.comps.items() if isinstance(c, VBase)}
    sig = dict(outcome=o, infos=infos, times=times if o == ("done",) else None, series={k: v for k, v in sorted(r.series.items())} if o == ("done",) else None)
    return sig, r


def explore_stateless(cfg, depth):
    """stateless exploration (no pause/re-entry, every execution is ONE uninterrupted run() call from a fresh composition):
    all choice sequences whose first `depth` choice points are enumerated exhaustively, later points take the first menu entry.
    Complements the snapshot search: driver state carried across loop iterations inside run() survives here."""
    res = dict(states=0, transitions=0, terminals=0, outcomes=collections.Counter(), violations=[], stats=collections.Counter(), capped=None)
    stack = [[]]
    while stack:
        prefix = stack.pop()
        r = Run(cfg, script=list(prefix), default=True)
        out = r.resume()
        made, menus = r.choices["made"], r.choices["menus"]
        res["terminals"] += 1
        res["states"] += r.updates + 1
        res["transitions"] += r.updates
        res["outcomes"][out[0] if out[0] != "exc" else "exc:" + out[1]] += 1
        if out[0] != "done":
            res.setdefault("nonfinal", []).append((out, list(made)))
        for clause, fp, what in r.viol:
            res["violations"].append((clause, fp, what, list(made)))
        res["stats"].update(r.stats)
        for i in range(len(prefix), min(len(made), depth)):
            for alt in menus[i][1:]:
                stack.append(made[:i] + [alt])
    return res


def run_path_reentrant(cfg, path):
    """replay of a path found by the snapshot search, with the search's own semantics: run() is left at every environment choice and
    entered again after the choice was made (a driver with loop-carried state behaves differently in one uninterrupted run() call -
    that is what the stateless mode explores, and its paths are replayed with run_path)"""
    r = Run(cfg)
    out = r.resume()
    for x in path:
        if out[0] != "pause":
            break
        r.comps[out[1]].pending = x
        out = r.resume()
    return out, [(c, fp, w, list(path)) for c, fp, w in r.viol], r


def run_path(cfg, path, default=False):
    """re-executes one choice sequence without the explorer (replay); returns (outcome, violations)"""
    r = Run(cfg, script=path, default=default)
    out = r.resume()
    return out, [(c, fp, w, list(path)) for c, fp, w in r.viol], r
