"""Configuration families for engine A (all JSON-able)."""
import itertools

TOK = {
    "S": ["S", 2], "L": ["L"], "N": ["N"], "V": ["V"], "T": ["T", 0.5], "T0": ["T", 0.0], "T1": ["T", 1.0],
    "A": ["A", None], "As": ["A", 0.5], "M": ["M", 0.0, True], "Ml": ["M", None, True], "Mn": ["M", 0.0, False],
    "F1": ["F", 1], "Fh": ["F", 2.5], "F2": ["F", 2], "F4": ["F", 4], "P1": ["P", 1, 0], "P2": ["P", 2, 0.5], "U": ["U"],
}
BUF = set("LNVTAM")


def chain_ok(chain, src_pull_based=False):
    """domain exclusions (DESIGN.md C01): DelayToPush downstream of an integration adapter; push-needing
    elements behind a pull-only source (rejected by validation, C19)"""
    kinds = [t[0] for t in chain]
    for i, k in enumerate(kinds):
        if k == "U" and any(x in "AM" for x in kinds[:i]):
            return False
    if src_pull_based and any(k in BUF or k == "U" for k in kinds):
        return False
    return True


def chains(names, maxlen, src_pull_based=False):
    out = []
    for n in range(maxlen + 1):
        for combo in itertools.product(names, repeat=n):
            ch = [TOK[c] for c in combo]
            if chain_ok(ch, src_pull_based):
                out.append(ch)
    return out


def T(name, menu=(1, 2, 3), ins=(), outs=(), start=0, fixed=None, pull_initial=True, finish_at=None):
    return dict(name=name, kind="T", menu=list(menu), ins=list(ins), outs=list(outs), start=start, fixed=fixed, pull_initial=pull_initial, finish_at=finish_at)


def P(name, ins=("i",), outs=("o",)):
    return dict(name=name, kind="P", ins=list(ins), outs=list(outs))


def L(src, so, dst, di, chain=()):
    return dict(src=src, so=so, dst=dst, di=di, chain=[list(t) for t in chain])


def orders(names, all_orders=True):
    return [list(p) for p in itertools.permutations(names)] if all_orders else [list(names), list(reversed(names))]


def pair(chain, menu=(1, 2, 3), end=6, starts=(0, 0), order=("A", "B"), pull_initial=True, menu_b=None):
    return dict(family="pair", comps=[T("A", menu, outs=["o"], start=starts[0]), T("B", menu_b or menu, ins=["i"], start=starts[1], pull_initial=pull_initial)], links=[L("A", "o", "B", "i", chain)], order=list(order), end=end)


def line3(ch1, ch2, menu=(1, 2), end=5, order=("A", "B", "C"), starts=(0, 0, 0)):
    return dict(family="line3", comps=[T("A", menu, outs=["o"], start=starts[0]), T("B", menu, ins=["i"], outs=["o"], start=starts[1]), T("C", menu, ins=["i"], start=starts[2])], links=[L("A", "o", "B", "i", ch1), L("B", "o", "C", "i", ch2)], order=list(order), end=end)


def join3(ch1, ch2, menu=(1, 2), end=5, order=("A", "B", "C")):
    return dict(family="join3", comps=[T("A", menu, outs=["o"]), T("B", menu, outs=["o"]), T("C", menu, ins=["i", "j"])], links=[L("A", "o", "C", "i", ch1), L("B", "o", "C", "j", ch2)], order=list(order), end=end)


def fan3(ch1, ch2, menu=(1, 2), end=5, order=("A", "B", "C")):
    return dict(family="fan3", comps=[T("A", menu, outs=["o"]), T("B", menu, ins=["i"]), T("C", menu, ins=["i"])], links=[L("A", "o", "B", "i", ch1), L("A", "o", "C", "i", ch2)], order=list(order), end=end)


def fan3trunk(trunk, ch1, ch2, menu=(1, 2), end=5, order=("A", "B", "C")):
    """A.o >> trunk adapters >> [ch1 >> B.i, ch2 >> C.i]: fan-out behind shared pass-through adapters"""
    return dict(family="fan3trunk", comps=[T("A", menu, outs=["o"]), T("B", menu, ins=["i"]), T("C", menu, ins=["i"])], trunks={"t": [list(t) for t in trunk]},
                links=[dict(L("A", "o", "B", "i", ch1), trunk="t"), dict(L("A", "o", "C", "i", ch2), trunk="t")], order=list(order), end=end)


def viaP(ch1, ch2, menu=(1, 2, 3), end=5, order=("A", "P", "B")):
    return dict(family="viaP", comps=[T("A", menu, outs=["o"]), P("P"), T("B", menu, ins=["i"])], links=[L("A", "o", "P", "i", ch1), L("P", "o", "B", "i", ch2)], order=list(order), end=end)


def viaPP(ch1, ch2, ch3, menu=(1, 2), end=5, order=("A", "P", "Q", "B")):
    return dict(family="viaPP", comps=[T("A", menu, outs=["o"]), P("P"), P("Q"), T("B", menu, ins=["i"])], links=[L("A", "o", "P", "i", ch1), L("P", "o", "Q", "i", ch2), L("Q", "o", "B", "i", ch3)], order=list(order), end=end)


def viaP2(ch1, ch2, ch3, menu=(1, 2), end=5, order=("A", "P", "B")):
    """one pull-based component with two outputs read by the same consumer"""
    return dict(family="viaP2", comps=[T("A", menu, outs=["o"]), P("P", outs=("o0", "o1")), T("B", menu, ins=["i0", "i1"])], links=[L("A", "o", "P", "i", ch1), L("P", "o0", "B", "i0", ch2), L("P", "o1", "B", "i1", ch3)], order=list(order), end=end)


def viaPdup(ch1, ch2, ch3, menu=(1, 2), end=5, order=("A", "P", "B")):
    """one output of a pull-based component linked twice to the same consumer"""
    return dict(family="viaPdup", comps=[T("A", menu, outs=["o"]), P("P"), T("B", menu, ins=["i0", "i1"])], links=[L("A", "o", "P", "i", ch1), L("P", "o", "B", "i0", ch2), L("P", "o", "B", "i1", ch3)], order=list(order), end=end)


def diamondP(menu=(1, 2), end=5, order=("A", "B", "P", "C"), ch=()):
    """two producers merged by a pull-based component"""
    return dict(family="diamondP", comps=[T("A", menu, outs=["o"]), T("B", menu, outs=["o"]), P("P", ins=("i", "j")), T("C", menu, ins=["i"])], links=[L("A", "o", "P", "i", ch), L("B", "o", "P", "j"), L("P", "o", "C", "i")], order=list(order), end=end)


def diamondPP(ch_first, ch_second, menu=(1, 2), end=5, order=("A", "H", "P", "Q", "B")):
    """five components: A -> H (pull-based, two outputs) -> P / Q (pull-based) -> B (two inputs); the first input of B may be delayed"""
    return dict(family="diamondPP", comps=[T("A", menu, outs=["o"]), P("H", outs=("o0", "o1")), P("P"), P("Q"), T("B", menu, ins=["i0", "i1"])],
                links=[L("A", "o", "H", "i"), L("H", "o0", "P", "i"), L("H", "o1", "Q", "i"), L("P", "o", "B", "i0", ch_first), L("Q", "o", "B", "i1", ch_second)], order=list(order), end=end)


def shareP(menu=(1, 2), end=5, order=("A", "P", "B", "C")):
    """one pull-based component read by two time-stepped consumers"""
    return dict(family="shareP", comps=[T("A", menu, outs=["o"]), P("P"), T("B", menu, ins=["i"]), T("C", menu, ins=["i"])], links=[L("A", "o", "P", "i"), L("P", "o", "B", "i"), L("P", "o", "C", "i")], order=list(order), end=end)


def ring(n, delays, menu=(1, 2), end=6, order=None, fixed=None, starts=None, pull_initial_first=True, chord=None, tail=False, pnode=None):
    """ring of n time components X0 -> X1 -> ... -> X0; delays: dict link index -> chain.
    pnode=k inserts a pull-based component on link k. chord=(i,j,chain) adds Xi->Xj. tail adds Xn-1 -> Z"""
    names = [chr(65 + k) for k in range(n)]
    comps = []
    for k, nm in enumerate(names):
        ins = ["i"] + (["c"] if chord and chord[1] == k else [])
        comps.append(T(nm, menu, ins=ins, outs=["o"], start=(starts or [0] * n)[k], fixed=(fixed or [None] * n)[k], pull_initial=(k != 0) or pull_initial_first))
    links = []
    for k in range(n):
        src, dst = names[k], names[(k + 1) % n]
        ch = delays.get(k, [])
        if pnode == k:
            comps.append(P("P"))
            links.append(L(src, "o", "P", "i", []))
            links.append(L("P", "o", dst, "i", ch))
        else:
            links.append(L(src, "o", dst, "i", ch))
    if chord:
        links.append(L(names[chord[0]], "o", names[chord[1]], "c", chord[2]))
    if tail:
        comps.append(T("Z", menu, ins=["i"], fixed=[1] if fixed else None))
        links.append(L(names[-1], "o", "Z", "i", []))
    allnames = [c["name"] for c in comps]
    return dict(family="ring%d" % n, comps=comps, links=links, order=list(order) if order else allnames, end=end)


def ringPdup(ch0, ch1, two_outputs=False, with_b=False, menu=(1, 2), end=5, order=None, pull_initial=True):
    """a ring through a pull-based component whose output side reaches the consumer over TWO parallel links (one output linked twice, or two
    outputs), each with its own chain: A.o >> P.i, P.o >> ch0 >> X.i0, P.o >> ch1 >> X.i1, where X is A itself or a second component B with B.o >> A.i"""
    outs = ("o0", "o1") if two_outputs else ("o", "o")
    if with_b:
        comps = [T("A", menu, ins=["i"], outs=["o"]), P("P", outs=tuple(dict.fromkeys(outs))), T("B", menu, ins=["i0", "i1"], outs=["o"], pull_initial=pull_initial)]
        links = [L("A", "o", "P", "i"), L("P", outs[0], "B", "i0", ch0), L("P", outs[1], "B", "i1", ch1), L("B", "o", "A", "i")]
    else:
        comps = [T("A", menu, ins=["i0", "i1"], outs=["o"], pull_initial=pull_initial), P("P", outs=tuple(dict.fromkeys(outs)))]
        links = [L("A", "o", "P", "i"), L("P", outs[0], "A", "i0", ch0), L("P", outs[1], "A", "i1", ch1)]
    names = [c["name"] for c in comps]
    return dict(family="ringPdup", comps=comps, links=links, order=list(order) if order else names, end=end)
