"""Engine B, helper layer: breadth-first search over sequences of connect calls on ONE component whose peers are scripted.

Environment events: the component's code hands in a not-yet-provided item with its next connect call (info of an input, info of an
output, initial data of an output) in any order and any grouping of one item per call or none; an upstream peer publishes its info /
its initial data; a downstream peer tries to exchange its info. Every event is a real call on real objects; the state is the
fingerprint of component + peers. Oracle on every connect call: status CONNECTED iff every declared exchange is done, else
CONNECTING iff the call observably exchanged something, else CONNECTING_IDLE; done items stay done; cached items are used as soon
as they become possible; at quiescence (everything provided, all peers ready) the component is CONNECTED, every input holds the
peer's initial value and every output published exactly once per required time.
"""
import collections
import copy

import numpy as np

from core.canon import fingerprint
from core.common import H, T0, fm, hrs
from harness.cnode import snapshot, complete

from finam.interfaces import ComponentStatus as CS

E = fm.errors


class Comp(fm.TimeComponent):
    def __init__(self, n_in, n_out, declared_in, declared_out, start):
        super().__init__()
        self._name = "X"
        self.n_in, self.n_out, self.declared_in, self.declared_out = n_in, n_out, declared_in, declared_out
        self._time = T0 + H(start)

    def _next_time(self):
        return self.time + H(1)

    def _initialize(self):
        for k in range(self.n_in):
            if self.declared_in[k]:
                self.inputs.add(name=f"i{k}", time=self.time, grid=fm.NoGrid(), units=None)
            else:
                self.inputs.add(name=f"i{k}")
        for k in range(self.n_out):
            if self.declared_out[k]:
                self.outputs.add(name=f"o{k}", time=self.time, grid=fm.NoGrid(), units="m")
            else:
                self.outputs.add(name=f"o{k}")
        self.create_connector(pull_data=[f"i{k}" for k in range(self.n_in)])

    def _connect(self, st):
        a = self.args
        self.try_connect(st, exchange_infos=a.get("ex", {}), push_infos=a.get("pi", {}), push_data=a.get("pd", {}))

    def _validate(self):
        pass

    def _update(self):
        pass

    def _finalize(self):
        pass


class System:
    def __init__(self, cfg):
        self.cfg = cfg
        n_in, n_out = cfg["n_in"], cfg["n_out"]
        self.x = Comp(n_in, n_out, cfg["declared_in"], cfg["declared_out"], cfg["start"])
        self.x.initialize()
        self.ups = [fm.Output(f"u{k}") for k in range(n_in)]  # upstream peers, info/data come later
        self.downs = [fm.Input(f"d{k}", time=T0, grid=fm.NoGrid(), units=None) for k in range(n_out)]
        for k in range(n_in):
            self.ups[k] >> self.x.inputs[f"i{k}"]
        for k in range(n_out):
            self.x.outputs[f"o{k}"] >> self.downs[k]
        for d in self.downs:
            d.ping()
        self.x.connect(T0)  # ping phase
        self.given = set()  # items the component's code has handed in so far
        self.peer_info = [False] * n_in
        self.peer_data = [False] * n_in
        self.down_done = [False] * n_out
        self.done_items = set()
        self.viol = []
        self.ncalls = 0

    def events(self):
        ev = []
        items = [("ex", f"i{k}") for k in range(self.cfg["n_in"]) if not self.cfg["declared_in"][k]]
        items += [("pi", f"o{k}") for k in range(self.cfg["n_out"]) if not self.cfg["declared_out"][k]]
        items += [("pd", f"o{k}") for k in range(self.cfg["n_out"])]
        for it in items:
            if it not in self.given:
                ev.append(("call", it))
        ev.append(("call", None))
        for k in range(self.cfg["n_in"]):
            if not self.peer_info[k]:
                ev.append(("peer_info", k))
            elif not self.peer_data[k]:
                ev.append(("peer_data", k))
        for k in range(self.cfg["n_out"]):
            if not self.down_done[k]:
                ev.append(("peer_exchange", k))
        return ev

    def value_up(self, k):
        return 10.0 + k

    def apply(self, ev):
        if ev[0] == "peer_info":
            self.ups[ev[1]].push_info(fm.Info(time=T0, grid=fm.NoGrid(), units="m"))
            self.peer_info[ev[1]] = True
        elif ev[0] == "peer_data":
            try:
                self.ups[ev[1]].push_data(self.value_up(ev[1]), T0)
                self.peer_data[ev[1]] = True
            except E.FinamNoDataError:
                pass  # info not exchanged yet: the peer retries later
        elif ev[0] == "peer_exchange":
            try:
                self.downs[ev[1]].exchange_info()
                self.down_done[ev[1]] = True
            except E.FinamNoDataError:
                pass
        else:
            args = {}
            it = ev[1]
            if it is not None:
                self.given.add(it)
                if it[0] == "ex":
                    args["ex"] = {it[1]: fm.Info(time=self.x.time, grid=fm.NoGrid(), units=None)}
                elif it[0] == "pi":
                    args["pi"] = {it[1]: fm.Info(time=self.x.time, grid=fm.NoGrid(), units="m")}
                else:
                    args["pd"] = {it[1]: 50.0 + int(it[1][1:])}
            self.x.args = args
            conn = self.x.connector
            before = snapshot(conn)
            try:
                self.x.connect(T0)
            except Exception as e:  # noqa
                self.viol.append(("exception_in_connect", dict(kind="helper", clause="exception", error=type(e).__name__), f"{type(e).__name__}: {str(e)[:100]}"))
                return
            after = snapshot(conn)
            self.ncalls += 1
            status = self.x.status.name
            want = "CONNECTED" if complete(after) else ("CONNECTING" if before != after else "CONNECTING_IDLE")
            if status != want:
                self.viol.append(("status", dict(kind="helper", clause="per_call_status", got=status, want=want), f"status {status}, reference {want} (exchanged something: {before != after}, all done: {complete(after)})"))
            # done items stay done
            now = {(p, k) for p, part in enumerate(after) for k, v in part if v}
            lost = self.done_items - now
            if lost:
                self.viol.append(("regress", dict(kind="helper", clause="done_item_undone"), f"{sorted(lost)}"))
            self.done_items = now
            self.check_possible(after)

    def check_possible(self, snap):
        """everything whose prerequisites hold must have happened in this call"""
        in_infos, out_infos, infos_pushed, data_pushed, in_data = [dict(p) for p in snap]
        for k in range(self.cfg["n_in"]):
            n = f"i{k}"
            have_own = self.cfg["declared_in"][k] or ("ex", n) in self.given
            if have_own and self.peer_info[k] and not in_infos[n]:
                self.viol.append(("missed", dict(kind="helper", clause="possible_exchange_not_done", item="in_info"), f"{n}: own info available and peer info published, but not exchanged"))
            if in_infos[n] and self.peer_data[k] and not in_data[n]:
                self.viol.append(("missed", dict(kind="helper", clause="possible_exchange_not_done", item="in_data"), f"{n}: info exchanged and peer data published, but not pulled"))
        for k in range(self.cfg["n_out"]):
            n = f"o{k}"
            have = self.cfg["declared_out"][k] or ("pi", n) in self.given
            if have and not infos_pushed[n]:
                self.viol.append(("missed", dict(kind="helper", clause="possible_exchange_not_done", item="out_info"), f"{n}: info handed in but not pushed"))
            if infos_pushed[n] and self.down_done[k] and not out_infos[n]:
                self.viol.append(("missed", dict(kind="helper", clause="possible_exchange_not_done", item="out_info_complete"), f"{n}"))
            if out_infos[n] and ("pd", n) in self.given and not data_pushed.get(n, True):
                self.viol.append(("missed", dict(kind="helper", clause="possible_exchange_not_done", item="out_data"), f"{n}: info complete and data handed in, but not pushed"))

    def quiescent_check(self):
        """all items handed in, all peers ready: the component must be CONNECTED with correct data"""
        x = self.x
        if x.status != CS.CONNECTED:
            self.viol.append(("final", dict(kind="helper", clause="not_connected_at_quiescence", status=x.status.name), f"status {x.status.name}"))
            return
        for k in range(self.cfg["n_in"]):
            d = x.connector.in_data.get(f"i{k}")
            if d is None or not np.isclose(float(d.magnitude.ravel()[0]), self.value_up(k)):
                self.viol.append(("final", dict(kind="helper", clause="initial_value"), f"i{k}: {d}"))
        need = sorted({0.0, float(self.cfg["start"])})
        for k in range(self.cfg["n_out"]):
            times = sorted(float(hrs(t)) for t, _ in x.outputs[f"o{k}"].data)
            if times != need:
                self.viol.append(("final", dict(kind="helper", clause="initial_publications"), f"o{k} published at {times}, needed exactly {need}"))

    def all_ready(self):
        return not [e for e in self.events() if e != ("call", None)]

    def key(self):
        return fingerprint((self.x, self.ups, self.downs, sorted(self.given), self.peer_info, self.peer_data, self.down_done, sorted(self.done_items)))


def explore(cfg, max_states=50000):
    s0 = System(cfg)
    seen = {s0.key()}
    q = collections.deque([(s0, [])])
    res = dict(states=1, transitions=0, violations=[], quiescent=0, calls=0)
    while q:
        s, path = q.popleft()
        for ev in s.events():
            s2 = copy.deepcopy(s)
            s2.apply(ev)
            res["transitions"] += 1
            p2 = path + [list(ev) if ev[1] is None or not isinstance(ev[1], tuple) else [ev[0], list(ev[1])]]
            if ev[0] == "call":
                res["calls"] += 1
                if s2.all_ready():
                    # one more plain call must not be needed beyond two rounds: call until stable (bounded)
                    s3 = copy.deepcopy(s2)
                    for _ in range(3):
                        if s3.x.status == CS.CONNECTED:
                            break
                        s3.apply(("call", None))
                    s3.quiescent_check()
                    res["quiescent"] += 1
                    s2.viol += s3.viol[len(s2.viol):]
            for clause, fp, what in s2.viol:
                res["violations"].append((clause, fp, what, p2))
            if s2.viol:
                continue
            k = s2.key()
            if k not in seen:
                seen.add(k)
                q.append((s2, p2))
        if len(seen) > max_states:
            res["capped"] = True
            break
    res["states"] = len(seen)
    return res


def run_path(cfg, path):
    s = System(cfg)
    out = []
    for ev in path:
        ev = (ev[0], tuple(ev[1]) if isinstance(ev[1], list) else ev[1])
        s.apply(ev)
        if ev[0] == "call" and s.all_ready():
            s3 = copy.deepcopy(s)
            for _ in range(3):
                if s3.x.status == CS.CONNECTED:
                    break
                s3.apply(("call", None))
            s3.quiescent_check()
            s.viol += s3.viol[len(s.viol):]
    for clause, fp, what in s.viol:
        out.append((clause, fp, what, path))
    return out
