"""Shared driver for engine-C checks."""
from core.pool import pmap
from core.runner import viol
from harness import cluster


def run_case(case):
    cfg = case["cfg"]
    if case.get("path") is not None:
        vs = cluster.run_path(cfg, case["path"])
        return dict(n=1, violations=[viol(fp, what, dict(cfg=cfg, path=p)) for _c, fp, what, p in vs])
    r = cluster.explore(cfg, max_depth=cfg.get("max_depth"), max_states=cfg.get("max_states", 150000), max_seconds=cfg.get("max_seconds", 900))
    res = dict(n=1, states=r["states"], transitions=r["transitions"], traces=r["transitions"], nontrivial=1 if r["states"] > 10 else 0,
               counters={"evictions_at_output": r["stats"].get("evictions", 0), "fixpoints_reached": 1 if r["fixpoint"] else 0, "depth_bounded_searches": 1 if cfg.get("max_depth") else 0}, violations=[])
    if r["capped"] or (not r["fixpoint"] and not cfg.get("max_depth")):
        res["capped"] = dict(consumers=cfg["consumers"], window=cfg.get("window"), cap=r["capped"], depth=r["max_depth_reached"])
    for _c, fp, what, p in r["violations"]:
        res["violations"].append(viol(fp, what, dict(cfg=cfg, path=p)))
    res["sample"] = dict(consumers=cfg["consumers"], window=cfg.get("window"), max_depth=cfg.get("max_depth"), states=r["states"], transitions=r["transitions"], fixpoint=r["fixpoint"], depth_reached=r["max_depth_reached"])
    return res


def run_cases(cfgs, agg, seed=0):
    cs = [dict(cfg=c) for c in cfgs]
    k = seed % max(1, len(cs))
    for r in pmap(run_case, cs[k:] + cs[:k]):
        agg.add(r)


def replay(case):
    return run_case(case)["violations"]
