"""Shared driver for engine-C checks."""
from core.pool import pmap
from core.runner import viol
from harness import cluster


def prelude(cfg):
    """process-wide state must not leak from one link into the next: a configuration flagged 'prelude' is first exercised once on objects of its own
    (two publications, every consumer pulls after each; result discarded) in the same process, then explored on fresh objects; replays repeat this"""
    if not cfg.get("prelude"):
        return
    from fractions import Fraction as Fr

    try:
        cluster.set_time_unit(cfg.get("unit_us", 3600 * 10**6))
        c = cluster.Cluster(cfg)
        for t in (1, 2):
            c.apply(("push", 1))
            for k in range(len(c.inps)):
                c.apply(("pull", k, Fr(t)))
    except BaseException:  # noqa
        pass


def with_prelude(cfgs, limit=40):
    seen, out = set(), []
    for c in cfgs:
        key = tuple(sorted({t[0] for ch in c["consumers"] for t in ch})), c.get("payload")
        if key not in seen and not c.get("unit_us") and len(out) < limit:
            seen.add(key)
            out.append(dict(c, prelude=True))
    return out


def run_case(case):
    cfg = case["cfg"]
    prelude(cfg)
    if case.get("path") is not None:
        vs = cluster.run_path(cfg, case["path"])
        return dict(n=1, violations=[viol(fp, what, dict(cfg=cfg, path=p)) for _c, fp, what, p in vs])
    r = cluster.explore(cfg, max_depth=cfg.get("max_depth"), max_states=cfg.get("max_states", 150000), max_seconds=cfg.get("max_seconds", 900))
    res = dict(n=1, states=r["states"], transitions=r["transitions"], traces=r["transitions"], nontrivial=1 if r["states"] > 10 else 0,
               counters={"evictions_at_output": r["stats"].get("evictions", 0), "fixpoints_reached": 1 if r["fixpoint"] else 0, "depth_bounded_searches": 1 if cfg.get("max_depth") else 0, "explored_after_a_first_use_in_the_same_process": 1 if cfg.get("prelude") else 0}, violations=[])
    if r["capped"] or (not r["fixpoint"] and not cfg.get("max_depth")):
        res["capped"] = dict(consumers=cfg["consumers"], window=cfg.get("window"), cap=r["capped"], depth=r["max_depth_reached"])
    for _c, fp, what, p in r["violations"]:
        res["violations"].append(viol(fp, what, dict(cfg=cfg, path=p)))
    res["sample"] = dict(consumers=cfg["consumers"], window=cfg.get("window"), max_depth=cfg.get("max_depth"), states=r["states"], transitions=r["transitions"], fixpoint=r["fixpoint"], depth_reached=r["max_depth_reached"])
    return res


def run_cases(cfgs, agg, seed=0):
    cfgs = list(cfgs)
    cs = [dict(cfg=c) for c in cfgs + with_prelude(cfgs)]
    k = seed % max(1, len(cs))
    for r in pmap(run_case, cs[k:] + cs[:k]):
        agg.add(r)


def replay(case):
    return run_case(case)["violations"]
