"""Shared driver for engine-A checks: explore each configuration, keep the clauses the property owns."""
from core.pool import pmap
from core.runner import viol
from harness import sched

_CLAUSES = ()
_JUDGE = None


def prelude(cfg):
    """process-wide state must not leak from one composition into the next: a configuration flagged 'prelude' is first run ONCE to completion
    along the default path (fresh objects, result discarded) in the same process - or, flagged 'aborted', abandoned once the first component has
    reached the end time while another is behind -, then explored; a replay repeats exactly this history"""
    if cfg.get("prelude"):
        try:
            base = {k: v for k, v in cfg.items() if k not in ("prelude", "stateless")}
            if cfg["prelude"] == "aborted":
                # the first run does not get to its end: it is abandoned (an exception out of a component, handled by the caller) as soon as the
                # first component has reached the end time while another one is still behind; largest step everywhere, at most 40 choices
                from core.common import hrs

                r = sched.Run(base)
                out = r.resume()
                for _ in range(40):
                    if out[0] != "pause":
                        break
                    ts = [hrs(c.time) for c in r.comps.values() if getattr(c, "menu", None) is not None and c.time is not None]
                    if ts and max(ts) >= r.end > min(ts):
                        break
                    comp = r.comps[out[1]]
                    comp.pending = max(comp.menu)
                    out = r.resume()
            else:
                sched.run_path(base, [], default=True)
        except BaseException:  # noqa - whatever the first run does is judged when the configuration itself is explored
            pass


def with_prelude(cases, limit=120):
    """copies (flagged 'prelude') of the first snapshot-mode configuration per (family, adapter kinds on the links)"""
    best = {}
    for c in cases:
        if c.get("stateless") or c.get("unit_us"):
            continue
        key = (c.get("family"), tuple(sorted({t[0] for l in c["links"] for t in l["chain"]})), tuple(sorted(ci["kind"] for ci in c["comps"])))
        rank = (not any(ci.get("fixed") for ci in c["comps"]), c.get("end", 0))  # choice mode before fixed step lists (an abandoned first run needs choice points), then the longest run
        if key not in best or rank > best[key][0]:
            best[key] = (rank, c)
    out = []
    for _rank, c in list(best.values())[: limit // 2]:
        out.append(dict(c, prelude=True))
        out.append(dict(c, prelude="aborted"))
    return out


def _work(cfg):
    prelude(cfg)
    if cfg.get("stateless"):
        res = sched.explore_stateless(cfg, cfg["stateless"])
    else:
        res = sched.explore(cfg, max_states=cfg.get("max_states", 60000))
    out = dict(n=1, states=res["states"], transitions=res["transitions"], traces=res["terminals"], counters={}, violations=[], nontrivial=0)
    cnt = out["counters"]
    for k, v in res["stats"].items():
        cnt[k] = v
    for k, v in res["outcomes"].items():
        cnt["outcome_" + k] = v
    cnt["family_" + cfg.get("family", "?")] = 1
    if cfg.get("prelude"):
        cnt["explored_after_a_first_run_in_the_same_process"] = 1
    if res["stats"].get("updates_of_upstream_dependency", 0) > 0 or res["stats"].get("updates_with_time_ties", 0) > 0:
        out["nontrivial"] = 1
    if res["capped"]:
        out["capped"] = dict(cfg=cfg, cap=res["capped"])
    for clause, fp, what, path in res["violations"]:
        if clause.startswith(_CLAUSES):
            out["violations"].append(viol(fp, what, dict(cfg=cfg, path=path)))
    if _JUDGE is not None:
        for fp, what, path in _JUDGE(cfg, res):
            out["violations"].append(viol(fp, what, dict(cfg=cfg, path=path)))
    out["sample"] = dict(cfg={k: cfg[k] for k in ("family", "links", "order", "end")}, states=res["states"], transitions=res["transitions"], outcomes=dict(res["outcomes"]))
    return out


def judge_valid(cfg, res):
    """for configurations that are valid by construction: every execution must run to completion"""
    out = []
    for outcome, path in res.get("nonfinal", []):
        if outcome[0] == "exc":
            fp = dict(kind="valid_composition_failed", error=outcome[1])
            if len(outcome) > 4:
                fp.update(phase=outcome[3], why=outcome[4])
            out.append((fp, f"run() of a valid composition failed with {outcome[1]}: {outcome[2]}", path))
        elif outcome[0] in ("circular", "hang"):
            out.append((dict(kind="valid_composition_failed", error=outcome[0]), f"run() of a valid composition ended with {outcome[0]}: {str(outcome[1:])[:150]}", path))
    return out


def run_cases(cases, clauses, agg, judge=None, seed=0):
    global _CLAUSES, _JUDGE
    _CLAUSES, _JUDGE = tuple(clauses), judge
    cases = list(cases)
    pre = with_prelude(cases)
    k = seed % max(1, len(cases))
    cases = pre + cases[k:] + cases[:k]  # (first: on a tree that is broken all over the run stops early, and these examples reproduce in a fresh process)
    # big cases first for load balance
    for r in pmap(_work, cases, chunksize=1):
        agg.add(r)


def replay_case(case, clauses, judge=None):
    cfg, path = case["cfg"], case.get("path")
    out = []
    prelude(cfg)
    if path is None:
        res = sched.explore_stateless(cfg, cfg["stateless"]) if cfg.get("stateless") else sched.explore(cfg, max_states=cfg.get("max_states", 60000))
        vs = res["violations"]
        if judge is not None:
            out += [viol(fp, what, dict(cfg=cfg, path=p)) for fp, what, p in judge(cfg, res)]
    else:
        if cfg.get("stateless"):
            outcome, vs, run = sched.run_path(cfg, path, default=bool(cfg.get("stateless")))
        else:
            outcome, vs, run = sched.run_path_reentrant(cfg, path)
        if judge is not None:
            res = dict(outcomes={}, violations=vs, nonfinal=[(outcome, path)] if outcome[0] not in ("done", "pause") else [], terminals=1, final_outcome=outcome)
            out += [viol(fp, what, dict(cfg=cfg, path=p)) for fp, what, p in judge(cfg, res)]
    for clause, fp, what, p in vs:
        if clause.startswith(tuple(clauses)):
            out.append(viol(fp, what, dict(cfg=cfg, path=p)))
    return out
