"""Engine B: harness components for the connect phase (CNode) and the least-fixpoint reference of what an iterative connect can derive."""
import collections

import numpy as np

from core.common import H, T0, compose, fm, hrs

from finam.interfaces import ComponentStatus as CS
from finam.tools import FromInput, FromOutput, FromValue

E = fm.errors


class Hang(BaseException):
    pass


class World:
    calls = 0
    refusals = 0
    cap = 300
    log = None
    comps = None
    links = None
    early = None  # (component, output, consumer, input) seen CONNECTED while that consumer's metadata exchange was outstanding


def snapshot(conn):
    """observable exchange items of a connector (public properties only)"""
    return (
        tuple(sorted((k, v is not None) for k, v in conn.in_infos.items())),
        tuple(sorted((k, v is not None) for k, v in conn.out_infos.items())),
        tuple(sorted((k, bool(v)) for k, v in conn.infos_pushed.items())),
        tuple(sorted((k, bool(v)) for k, v in conn.data_pushed.items())),
        tuple(sorted((k, v is not None) for k, v in conn.in_data.items())),
    )


def complete(snap):
    return all(v for part in snap for _k, v in part)


class CNode(fm.TimeComponent):
    """ins:  [(name, mode)]   mode: decl | from_out:<o> | after_pull:<j> | arg
    outs: [(name, info_mode, data_mode)]  info_mode: decl | open | from_in:<i> | arg ;  data_mode: const | pull:<i>[,<j>]
    All inputs are pulled initially."""

    cache = True  # ConnectHelper(cache=...): class attribute so that a whole composition can be switched
    variant = None  # "late_rules": the connector is created without transfer rules, they are added afterwards (add_*_info_rule);
    #                 "fault": constant initial data is first handed in in a unit the output refuses (FinamDataError out of try_connect,
    #                 whenever the push is finally attempted); the component handles the refusal and hands in the valid data at once

    def __init__(self, name, ins, outs, start=0):
        super().__init__()
        self._name = name
        self.ins, self.outs = [tuple(i) for i in ins], [tuple(o) for o in outs]
        self._time = T0 + H(start)
        self.start = start
        self.status_log = []
        self.ncalls = 0
        self.published = {}  # output -> value handed in by the call that published the initial data ('refine' outputs)

    def _next_time(self):
        return self.time + H(1)

    def info_in(self):
        return fm.Info(time=self.time, grid=fm.NoGrid(), units=None)

    def info_out(self):
        return fm.Info(time=self.time, grid=fm.NoGrid(), units="m")

    def _initialize(self):
        in_rules, out_rules = {}, {}
        for n, mode in self.ins:
            if mode == "decl":
                self.inputs.add(name=n, info=self.info_in())
            elif mode == "decl_tag":  # declared, with extra metadata of its own that the producer does not know
                self.inputs.add(name=n, info=fm.Info(time=self.time, grid=fm.NoGrid(), units=None, owner=self.name, _FillValue=-float(ord(self.name[0]))))
            else:
                self.inputs.add(name=n)
                if mode.startswith("from_out:"):
                    in_rules[n] = [FromOutput(mode.split(":")[1])]
        for n, im, dm in self.outs:
            if im == "decl":
                self.outputs.add(name=n, info=self.info_out())
            elif im == "open":
                self.outputs.add(name=n, time=self.time, grid=None, units="m")
            else:
                self.outputs.add(name=n)
                if im.startswith("from_in:"):
                    out_rules[n] = [FromInput(im.split(":")[1]), FromValue("time", self.time), FromValue("units", "m"), FromValue("tag", self.name)]
        if CNode.variant == "late_rules":
            self.create_connector(pull_data=[n for n, _ in self.ins], cache=CNode.cache)
            for n, rules in in_rules.items():
                for r in rules:
                    self.connector.add_in_info_rule(n, r)
            for n, rules in out_rules.items():
                for r in rules:
                    self.connector.add_out_info_rule(n, r)
        else:
            self.create_connector(pull_data=[n for n, _ in self.ins], in_info_rules=in_rules, out_info_rules=out_rules, cache=CNode.cache)
        self.refused = 0

    def const_value(self, oname):
        return 100.0 * (ord(self.name[0]) - 64) + 10.0 * [o[0] for o in self.outs].index(oname)

    def _connect(self, st):
        World.calls += 1
        if World.calls > World.cap:
            raise Hang()
        conn = self.connector
        ex_infos, push_infos, push = {}, {}, {}
        for n, mode in self.ins:
            if mode == "arg":
                ex_infos[n] = self.info_in()
            elif mode.startswith("after_pull:"):
                if conn.in_data.get(mode.split(":")[1]) is not None:
                    ex_infos[n] = self.info_in()
        for n, im, dm in self.outs:
            if im == "arg":
                push_infos[n] = self.info_out()
            if dm == "const":
                push[n] = self.const_value(n)
            elif dm == "refine":  # the initial state is still improving: every call hands in a newer value until the data is out
                push[n] = self.const_value(n) + 0.25 * self.ncalls
            else:
                deps = dm.split(":")[1].split(",")
                if all(conn.in_data.get(d) is not None for d in deps):
                    push[n] = sum(float(conn.in_data[d].magnitude.ravel()[0]) for d in deps) + 1.0
        before = snapshot(conn)
        was_out = {n: bool(conn.data_pushed.get(n)) for n in push}
        self.ncalls += 1
        if CNode.variant == "fault" and not self.refused:
            bad_push = {n: (fm.UNITS.Quantity(v, "s") if dict((o[0], o[2]) for o in self.outs)[n] == "const" else v) for n, v in push.items()}
            try:
                self.try_connect(st, exchange_infos=ex_infos, push_infos=push_infos, push_data=bad_push)
            except E.FinamDataError:
                self.refused += 1
                World.refusals += 1
                self.try_connect(st, exchange_infos=ex_infos, push_infos=push_infos, push_data=push)
        else:
            self.try_connect(st, exchange_infos=ex_infos, push_infos=push_infos, push_data=push)
        after = snapshot(conn)
        for n, v in push.items():
            if not was_out[n] and conn.data_pushed.get(n):
                self.published[n] = v
        self.status_log.append((self.status.name, before != after, complete(after)))
        if self.status == CS.CONNECTED and World.links is not None:
            # independent of the connector's own bookkeeping: every consumer of every output must have exchanged its metadata
            for l in World.links:
                if l[0][0] == self.name:
                    cons = World.comps[l[1][0]]
                    if cons.connector is None or cons.connector.in_infos.get(l[1][1]) is None:
                        World.early.append((self.name, l[0][1], l[1][0], l[1][1]))

    def _validate(self):
        pass

    def _update(self):
        self._time += H(1)

    def _finalize(self):
        pass


def fixpoint(specs, links):
    """least fixpoint of derivable exchange items; returns (set of items, names of components with a missing item)
    specs: [(name, ins, outs, start)], links: [((src, out), (dst, in))]"""
    sp = {s[0]: s for s in specs}
    links = [(l[0], l[1]) for l in links]
    src = {(b, i): (a, o) for (a, o), (b, i) in links}
    cons = collections.defaultdict(list)
    for (a, o), (b, i) in links:
        cons[(a, o)].append((b, i))
    F = set()
    changed = True

    def add(x):
        nonlocal changed
        if x not in F:
            F.add(x)
            changed = True

    while changed:
        changed = False
        for X, s in sp.items():
            for o, im, dm in s[2]:
                if im in ("decl", "open", "arg") or ("inInfo", X, im.split(":")[1]) in F:
                    add(("outPushed", X, o))
                if ("outPushed", X, o) in F and all(("inInfo", Z, zi) in F for Z, zi in cons[(X, o)]):
                    add(("outComplete", X, o))
                deps = [] if dm in ("const", "refine") else dm.split(":")[1].split(",")
                if ("outComplete", X, o) in F and all(("pulled", X, d) in F for d in deps):
                    add(("data", X, o))
            for i, mode in s[1]:
                Y, yo = src[(X, i)]
                have_own = mode in ("decl", "arg", "decl_tag") or (mode.startswith("from_out:") and ("outComplete", X, mode.split(":")[1]) in F) or (mode.startswith("after_pull:") and ("pulled", X, mode.split(":")[1]) in F)
                if have_own and ("outPushed", Y, yo) in F:
                    add(("inInfo", X, i))
                if ("inInfo", X, i) in F and ("data", Y, yo) in F:
                    add(("pulled", X, i))
    stuck = []
    for X, s in sp.items():
        need = []
        for i, _m in s[1]:
            need += [("inInfo", X, i), ("pulled", X, i)]
        for o, _im, _dm in s[2]:
            need += [("outPushed", X, o), ("outComplete", X, o), ("data", X, o)]
        if not all(n in F for n in need):
            stuck.append(X)
    return F, tuple(sorted(stuck))


def expected_value(specs, links, X, i, memo=None, published=None):
    """initial value an input must receive if everything is derivable; published: {(component, output): value handed in by the call
    that published a 'refine' output}"""
    sp = {s[0]: s for s in specs}
    src = {(l[1][0], l[1][1]): (l[0][0], l[0][1]) for l in links}
    Y, yo = src[(X, i)]
    for o, im, dm in sp[Y][2]:
        if o == yo:
            if dm == "const":
                return 100.0 * (ord(Y[0]) - 64) + 10.0 * [x[0] for x in sp[Y][2]].index(o)
            if dm == "refine":
                return (published or {}).get((Y, o), float("nan"))
            return sum(expected_value(specs, links, Y, d, None, published) for d in dm.split(":")[1].split(",")) + 1.0


def run_connect(specs, links, order, link_order, cache=True, variant=None):
    """executes the real Composition.connect; returns (outcome, observations, comps)"""
    World.calls = 0
    CNode.cache = cache
    CNode.variant = variant
    comps = {s[0]: CNode(*s) for s in specs}
    World.comps, World.links, World.early = comps, links, []
    c = compose([comps[n] for n in order])
    trunks = {}
    for li in link_order:
        (a, o), (b, i) = links[li][0], links[li][1]
        if len(links[li]) > 2:  # fan-out behind a shared pass-through adapter
            key = (a, o, links[li][2])
            if key not in trunks:
                trunks[key] = comps[a].outputs[o] >> fm.adapters.Scale(1.0)
            trunks[key] >> comps[b].inputs[i]
        else:
            comps[a].outputs[o] >> comps[b].inputs[i]
    try:
        c.connect()
        out = ("ok",)
    except Hang:
        out = ("hang",)
    except E.FinamCircularCouplingError as e:
        msg = str(e)
        names = msg.split("[")[1].split("]")[0] if "[" in msg else ""
        out = ("circular", tuple(sorted(x.strip() for x in names.split(",") if x.strip())))
    except RecursionError:
        out = ("exc", "RecursionError", "")
    except Exception as e:  # noqa
        out = ("exc", type(e).__name__, str(e)[:120])
    return out, comps
