"""Engine C: event-sequence search on  Output -> [adapter chain] -> k Inputs  (real objects, no Composition).

Events: push(gap)  (publication times strictly increasing, irregular) and pull(k, t) with per-consumer non-decreasing t on a
time lattice. States are fingerprinted modulo time translation (relative to the newest publication), the lag of the slowest
consumer is bounded by a window W, so the normalised state space is finite and the search runs to a fixpoint (or a depth bound).
Reference: core.refmodels with unlimited (pruned-by-floor) history.
"""
import collections
import copy
from fractions import Fraction as Fr

import numpy as np

from core import refmodels as R
from core.canon import fingerprint
from core.common import H, T0, fm, hrs, set_time_unit, time_unit_seconds
from harness.sched import mk_adapter, tok_class, Shared

E = fm.errors


class World:
    cur = None


class MOut(fm.Output):
    def get_data(self, time, target):
        c = World.cur
        if c is not None:
            c.on_get(time, target)
        return super().get_data(time, target)


GRID2 = None


PMASK = np.array([[False, True], [False, False]])


def payload_value(kind, v):
    if kind == "scalar":
        return float(v)
    if kind == "masked":
        return np.ma.array(np.array([[1.0, 2.0], [3.0, 5.0]]) * float(v), mask=PMASK.copy(), fill_value=-9999.0)
    return np.array([[1.0, 2.0], [3.0, 5.0]]) * float(v)


def scalar_of(kind, d):
    m = d.magnitude if hasattr(d, "magnitude") else d
    m = np.asarray(m)
    if kind == "scalar":
        return float(m.ravel()[0])
    base = np.array([[1.0, 2.0], [3.0, 5.0]])
    arr = m.reshape(m.shape[-2:]) if m.ndim >= 2 else m
    if kind == "masked":
        mm = d.magnitude if hasattr(d, "magnitude") else d
        if not np.ma.isMaskedArray(mm) or not np.array_equal(np.ma.getmaskarray(mm).reshape(2, 2), PMASK):
            return float("nan")  # the mask did not travel with the data
        arr = np.where(PMASK, base * (np.ma.getdata(mm).reshape(2, 2)[0, 0]), np.ma.getdata(mm).reshape(2, 2))
    ratio = arr / base
    if not np.allclose(ratio, ratio.ravel()[0], rtol=1e-9, atol=1e-12):
        return float("nan")
    return float(ratio.ravel()[0])


class Cluster:
    def __init__(self, cfg):
        self.cfg = cfg = Shared(cfg)
        World.cur = self
        kind = cfg.get("payload", "scalar")
        grid = fm.NoGrid() if kind == "scalar" else fm.UniformGrid((3, 3))
        self.out = MOut("o", fm.Info(time=T0, grid=grid, units=cfg.get("units", "m")))
        self.inps, self.ads = [], []
        self.source = R.RefSource()
        self.links = []
        trunk_end = self.out
        for tok in cfg.get("trunk", []):  # stateless pass-through adapters shared by all consumers (fan-out behind them)
            a = mk_adapter(tok)
            self.ads.append(a)
            trunk_end = trunk_end >> a
        for k, chain in enumerate(cfg["consumers"]):
            inp = fm.Input("i%d" % k, fm.Info(time=T0, grid=grid, units=cfg.get("in_units")))
            inp.v_k = k
            ch = trunk_end
            for tok in chain:
                a = mk_adapter(tok)
                a.v_k = k
                self.ads.append(a)
                ch = ch >> a
            ch >> inp
            self.inps.append(inp)
            self.links.append(R.RefLink(self.source, [tuple(t) for t in cfg.get("trunk", [])] + [tuple(t) for t in chain], Fr(0)))
        for i in self.inps:
            i.ping()
        for i in self.inps:
            i.exchange_info()
        self.last = [None] * len(self.inps)
        self.newest = None
        self.last_gap = 0
        self.viol = []
        self.cur_pull = None
        self.req_src = {}
        self.push(0)

    # values depend on the last two gaps only, so translated states have equal futures
    def next_value(self, gap):
        if self.cfg.get("float_values"):
            # non-dyadic values of very different magnitude: an interpolation formula that is not bit-exact at the end points shows
            return 100.0 if gap == 0 else [0.1, 0.3, 0.7][gap - 1] * (1 + 10 * self.last_gap)
        return 100 + 10 * gap + self.last_gap

    def push(self, gap):
        t = T0 if self.newest is None else self.newest + H(gap)
        v = self.next_value(gap)
        self.last_payload = payload_value(self.cfg.get("payload", "scalar"), v)
        try:
            self.out.push_data(self.last_payload, t)
        except Exception as e:  # noqa - a publication with a strictly newer time must always be accepted
            self.viol.append(("push", dict(kind="publication_failed", error=type(e).__name__), f"push at {float(hrs(t))} failed: {type(e).__name__}: {str(e)[:120]}"))
        self.newest, self.last_gap = t, gap
        self.source.publish(hrs(t), Fr(v))  # Fr(float) is exact

    def push_alias(self):
        """history only: the array object published last is published again for a newer time (half a lattice step ahead). The output
        must refuse it (it shares memory with retained data) and nothing may have changed: the newest publication is still the old one.
        Once per path; if the slot accepts it, the path has left the domain and is dropped."""
        self.alias_used = True
        step = Fr(self.cfg.get("lattice", Fr(1, 2)))
        self.push(1)  # a regular publication first, in the same transition (a snapshot copy would separate the array from the retained data)
        try:
            self.out.push_data(self.last_payload, self.newest + H(step))
            self.dead = True
        except E.FinamDataError:
            pass
        except Exception:  # noqa
            self.dead = True

    def on_get(self, time, target):
        if self.cur_pull is None or isinstance(target, fm.Adapter):
            return
        k, t = self.cur_pull
        if getattr(target, "v_k", None) != k:
            return
        exp = self.links[k].request_time_at_source(t)
        if exp is not None and exp != hrs(time):
            self.viol.append(("request_time", dict(kind="request_time_at_source", chain=tok_class(self.cfg["consumers"][k])), f"consumer {k} chain {self.cfg['consumers'][k]} pull at {float(t)}: source asked for {float(hrs(time))}, reference {float(exp)}"))

    def pull(self, k, t):
        """t in hours (Fraction). returns nothing; appends violations"""
        World.cur = self
        chain = self.cfg["consumers"][k]
        cls = tok_class(chain)
        self.cur_pull = (k, t)
        got = err = None
        try:
            d = self.inps[k].pull_data(T0 + H(t))
            got = d
        except (E.FinamTimeError, E.FinamNoDataError) as e:
            err = e
        except Exception as e:  # noqa - judged below: only acceptable where the statement leaves the answer open
            err = e
        finally:
            self.cur_pull = None
        link = self.links[k]
        req_at_src = link.request_time_at_source(t)  # None: answered from a buffer (the registered end point is the adapter, which pulls at every notification)
        try:
            exp = link.pull(t)
            refuse = None
        except R.Refuse as r:
            exp, refuse = None, r.why
        if refuse is not None:
            if err is not None and not isinstance(err, (E.FinamTimeError, E.FinamNoDataError)):
                self.viol.append(("crash", dict(kind="unexpected_exception", error=type(err).__name__, chain=cls), f"consumer {k} chain {chain} pull at {float(t)}: {type(err).__name__}: {str(err)[:120]}"))
            if err is None:
                self.viol.append(("served", dict(kind="served_but_reference_refuses", why=refuse, chain=cls), f"consumer {k} chain {chain} pull at {float(t)} served {scalar_of(self.cfg.get('payload', 'scalar'), got)} but must be refused ({refuse})"))
                self.last[k] = t
            return
        if err is not None:
            if exp is R.ANY:
                return
            if not isinstance(err, (E.FinamTimeError, E.FinamNoDataError)):
                self.viol.append(("crash", dict(kind="unexpected_exception", error=type(err).__name__, chain=cls), f"consumer {k} chain {chain} pull at {float(t)}: {type(err).__name__}: {str(err)[:120]}"))
                return
            self.viol.append(("refused", dict(kind="refused_but_reference_serves", error=type(err).__name__, chain=cls), f"consumer {k} chain {chain} pull at {float(t)} refused ({type(err).__name__}: {str(err)[:90]}) but the unlimited-history reference serves {sorted(float(x) for x in exp)}"))
            return
        self.last[k] = t
        self.req_src[k] = req_at_src
        # history: what an earlier pull handed out must not change when a later pull is answered (results that share a work buffer)
        kept = getattr(self, "kept", None)
        if kept is None:
            kept = self.kept = {}
        for (k0, t0), (obj, snap_v, snap_m) in list(kept.items()):
            m0 = obj.magnitude
            if not (np.array_equal(np.ma.getdata(m0)[~snap_m], snap_v[~snap_m]) and np.array_equal(np.ma.getmaskarray(m0), snap_m)):
                self.viol.append(("value", dict(kind="earlier_result_changed_by_later_pull", chain=tok_class(self.cfg["consumers"][k0])), f"the data handed to consumer {k0} for {float(t0)} changed when consumer {k} pulled {float(t)}"))
                del kept[(k0, t0)]
        for key in [x for x in kept if x[0] == k]:
            del kept[key]
        mg = got.magnitude
        kept[(k, t)] = (got, np.array(np.ma.getdata(mg), copy=True), np.array(np.ma.getmaskarray(mg), copy=True))
        if exp is R.ANY:  # the statement leaves this answer open (e.g. repeated pull time on an integrating adapter)
            self.after_pull()
            return
        if self.cfg.get("expect_units") is not None and got.units != fm.UNITS.Unit(self.cfg["expect_units"]):
            self.viol.append(("units", dict(kind="wrong_units", chain=cls), f"consumer {k} result units {got.units} != {self.cfg['expect_units']}"))
        if self.cfg.get("convert_to"):
            try:
                got = got.to(self.cfg["convert_to"])
            except Exception as e:  # noqa
                self.viol.append(("units", dict(kind="wrong_units", chain=cls), f"consumer {k} chain {chain}: result units {got.units} not convertible to {self.cfg['convert_to']} ({type(e).__name__})"))
                return
        kind = self.cfg.get("payload", "scalar")
        val = scalar_of(kind, got)
        scale = Fr(self.cfg.get("value_scale", 1))
        if self.cfg.get("exact_at_publications") and any(t == ht for ht, _ in self.source.hist) and exp is not R.ANY:
            # "the published value exactly at publication times": bit-identical, no tolerance
            if not any(float(e * scale) == val for e in exp):
                self.viol.append(("exact", dict(kind="not_exact_at_publication_time", chain=cls), f"consumer {k} chain {chain} pull at publication time {float(t)} got {val!r}, published {sorted(float(x * scale) for x in exp)!r}"))
        if exp is not R.ANY and not any(R.close(e * scale, val) for e in exp):
            self.viol.append(("value", dict(kind="wrong_value", chain=cls), f"consumer {k} chain {chain} pull at {float(t)} got {val}, reference {sorted(float(x * scale) for x in exp)} (history {[(float(a), float(b)) for a, b in self.source.hist]})"))
        want_shape = (1,) if kind == "scalar" else (1, 2, 2)
        if kind == "masked" and val != val:
            self.viol.append(("mask", dict(kind="mask_lost_or_changed", chain=cls), f"consumer {k} chain {chain} pull at {float(t)}: result {type(got.magnitude).__name__} mask {np.ma.getmaskarray(got.magnitude).tolist()}"))
            self.after_pull()
            return
        if tuple(got.shape) != want_shape:
            self.viol.append(("shape", dict(kind="wrong_shape", chain=cls), f"consumer {k} result shape {got.shape} != {want_shape}"))
        self.after_pull()

    def after_pull(self):
        # prune the reference (bounded history) and check the retention bound of the real output
        floors = [self.links[k].prune(self.last[k]) for k in range(len(self.inps))]
        if all(f is not None for f in floors):
            self.source.prune(min(floors))
        if self.cfg.get("check_retention") and len(self.req_src) == len(self.inps):
            # every consumer has pulled: nothing older than the slowest end point's last request (plus one entry) may be retained.
            # The last request of an end point is taken from the reference (consumer's last pull shifted by its delays; newest
            # publication for a push-notified adapter), not from what the output happened to record.
            new = hrs(self.newest)
            tmin = min((self.links[k].endpoint_request_at_source(new) if v is None else v) for k, v in self.req_src.items())
            times = [hrs(tt) for tt, _ in self.out.data]
            newer = len([1 for tt in times if tt > tmin])
            if len(times) > newer + 1:
                self.viol.append(("retention", dict(kind="history_longer_than_needed"), f"retained {[float(x) for x in times]} with slowest end point's last request {float(tmin)}"))

    def lag_floor(self):
        return min((Fr(0) if l is None else l) for l in self.last)

    def events(self):
        cfg = self.cfg
        W, step = Fr(cfg.get("window", 4)), Fr(cfg.get("lattice", Fr(1, 2)))
        new = hrs(self.newest)
        ev = []
        for g in cfg.get("gaps", (1, 2, 3)):
            if new + g - self.lag_floor() <= W:
                ev.append(("push", g))
        beyond = Fr(cfg.get("beyond", Fr(1, 2)))
        for k in range(len(self.inps)):
            lo = self.last[k] if self.last[k] is not None else Fr(0) - (step if cfg.get("before_start", True) else 0)
            t = lo
            while t <= new + beyond:
                ev.append(("pull", k, t))
                t += step
            if cfg.get("back_requests") and self.last[k] is not None and self.last[k] - step >= 0 and not getattr(self, "went_back", {}).get(k) == self.last[k]:
                ev.append(("pull_back", k, self.last[k] - step))
        if cfg.get("alias_pushes") and not getattr(self, "alias_used", False) and cfg.get("payload", "scalar") != "scalar" and new + 1 - self.lag_floor() <= W:
            ev.append(("push_alias",))
        return ev

    def apply(self, ev):
        World.cur = self
        if ev[0] == "push":
            self.push(ev[1])
        elif ev[0] == "pull_back":
            self.pull_back(ev[1], Fr(ev[2]))
        elif ev[0] == "push_alias":
            self.push_alias()
        else:
            self.pull(ev[1], Fr(ev[2]))

    def pull_back(self, k, t):
        """history only: a request that goes back behind the consumer's previous one. Such sequences are outside the statements (requests
        are non-decreasing); if the slot REFUSES it, nothing may have changed (the search goes on from here with the reference untouched),
        if it serves it, the path has left the domain and is dropped"""
        self.cur_pull = (k, t)
        try:
            self.inps[k].pull_data(T0 + H(t))
            self.dead = True
        except (E.FinamTimeError, E.FinamNoDataError):
            pass
        except Exception:  # noqa
            self.dead = True
        finally:
            self.cur_pull = None

    def key(self):
        # Info._time (the declared start time of a slot) is only read while connecting; Output._time always equals the newest retained entry: neither is part of the post-connect state.
        # Other absolute times (start-time clamp of delay adapters) stop mattering once older than window + total delay + largest gap.
        cut = (Fr(self.cfg.get("window", 4)) + Fr(self.cfg.get("dmax", 0)) + 3) * time_unit_seconds()
        return fingerprint((getattr(self, "alias_used", False), self.out, self.inps, self.ads, self.source, self.links, self.last_gap, sorted((k, None if v is None else v - hrs(self.newest)) for k, v in self.req_src.items()), [None if l is None else l - hrs(self.newest) for l in self.last]), tnorm=(self.newest, float(cut)), skip_keys=frozenset(["_time"]))


def explore(cfg, max_depth=None, max_states=200000, max_seconds=None):
    import time as _time

    t_start = _time.time()
    set_time_unit(cfg.get("unit_us", 3600 * 10**6))
    c0 = Cluster(cfg)
    seen = {c0.key()}
    q = collections.deque([(c0, [], 0)])
    res = dict(states=1, transitions=0, violations=[], max_depth_reached=0, fixpoint=True, capped=None, stats=collections.Counter())
    while q:
        c, path, depth = q.popleft()
        res["max_depth_reached"] = max(res["max_depth_reached"], depth)
        if max_depth is not None and depth >= max_depth:
            res["fixpoint"] = False
            continue
        for ev in c.events():
            c2 = copy.deepcopy(c)
            n0 = len(c2.out.data)
            c2.apply(ev)
            res["transitions"] += 1
            if ev[0] == "pull" and len(c2.out.data) < n0:
                res["stats"]["evictions"] += 1
            p2 = path + [[ev[0]] + [float(x) if isinstance(x, Fr) else x for x in ev[1:]]]
            if getattr(c2, "dead", False):
                res["stats"]["paths_left_domain"] += 1
                continue
            for clause, fp, what in c2.viol:
                res["violations"].append((clause, fp, what, p2))
            if c2.viol:
                c2.viol = []
                continue  # do not explore beyond a violating state
            k = c2.key()
            if k not in seen:
                seen.add(k)
                q.append((c2, p2, depth + 1))
        if len(res["violations"]) > 200:
            res["fixpoint"] = False
            break
        if len(seen) > max_states or (max_seconds and _time.time() - t_start > max_seconds):
            res["capped"] = dict(max_states=max_states, max_seconds=max_seconds, states=len(seen))
            res["fixpoint"] = False
            break
    res["states"] = len(seen)
    return res


def run_path(cfg, path):
    set_time_unit(cfg.get("unit_us", 3600 * 10**6))
    c = Cluster(cfg)
    out = []
    for ev in path:
        c.apply((ev[0],) + tuple(Fr(x).limit_denominator(1000) if isinstance(x, float) else x for x in ev[1:]) if ev[0] == "pull" else tuple(ev))
        for clause, fp, what in c.viol:
            out.append((clause, fp, what, path))
        c.viol = []
    return out
