#!/venv/bin/python
"""Entry point: run.py <Cxx> --tier quick|thorough"""
import os
import sys

if os.environ.get("PYTHONHASHSEED") != "0":
    os.environ["PYTHONHASHSEED"] = "0"
    os.environ.setdefault("PYTHONWARNINGS", "ignore")
    os.execv(sys.executable, [sys.executable] + sys.argv)
sys.path.insert(0, os.path.dirname(os.path.abspath(__file__)))
from core.runner import main  # noqa: E402

if __name__ == "__main__":
    sys.exit(main())
