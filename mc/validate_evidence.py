#!/usr/bin/env python3-vt
"""validates evidence/*.json against the schema (run with python3-vt)"""
import glob, json, sys, jsonschema
sch = json.load(open('/root/.vp/EVIDENCE.schema.json'))
bad = 0
for f in sorted(glob.glob('/verif/evidence/*.json')):
    try:
        jsonschema.validate(json.load(open(f)), sch)
        print('ok', f)
    except Exception as e:
        bad += 1
        print('INVALID', f, str(e)[:300])
sys.exit(1 if bad else 0)
