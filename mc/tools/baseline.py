#!/usr/bin/env python3
"""Runs the repository test suite in a given tree and compares the passing set with BASELINE.json.
usage: baseline.py <repo_dir> [--tests-only]   exit 0 iff every stable_pass test (of the selected subset) passes."""
import json, subprocess, sys, tempfile, os
import xml.etree.ElementTree as ET

repo = sys.argv[1]
tests_only = "--tests-only" in sys.argv
base = json.load(open("/root/.vp/BASELINE.json"))
want = set(base["stable_pass"])
if tests_only:
    want = {t for t in want if t.startswith("tests.")}
fd, junit = tempfile.mkstemp(suffix=".xml"); os.close(fd)
cmd = ["/venv/bin/python", "-m", "pytest", "-q", "-p", "no:cacheprovider", "--timeout=900", "--continue-on-collection-errors", "--junitxml=" + junit]
if tests_only:
    cmd.append("tests")
env = dict(os.environ, PYTHONPATH=os.path.join(repo, "src"))
p = subprocess.run(cmd, cwd=repo, env=env, capture_output=True, text=True)
passed = set()
for tc in ET.parse(junit).getroot().iter("testcase"):
    if not any(ch.tag in ("failure", "error", "skipped") for ch in tc):
        passed.add(f"{tc.get('classname')}::{tc.get('name')}")
os.remove(junit)
missing = sorted(want - passed)
print(f"passed={len(passed)} wanted={len(want)} missing={len(missing)}")
for m in missing[:40]:
    print("  MISSING", m)
sys.exit(1 if missing else 0)
