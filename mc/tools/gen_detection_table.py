#!/usr/bin/env python3
"""Rewrites the detection table in DESIGN.md (between the markers) from seeded/*/meta.json and seeded/strengthening.json."""
import glob, json, os, re
V = os.path.dirname(os.path.dirname(os.path.dirname(os.path.abspath(__file__))))
notes = json.load(open(os.path.join(V, "seeded", "strengthening.json")))
rows = ["| change | mechanism (first line of the author's notes) | caught by | needed strengthening first |", "|--------|-----------|-----------|----------------------------|"]
n = caught = 0
for f in sorted(glob.glob(os.path.join(V, "seeded", "*", "meta.json"))):
    m = json.load(open(f))
    npath = f.replace("meta.json", "notes.md")
    lines = open(npath).read().strip().split("\n") if os.path.exists(npath) else []
    first = next((l for l in lines if l.strip() and not l.startswith("#")), "")[:140].replace("|", "/")
    n += 1
    caught += 1 if m["detected_by"] else 0
    rows.append(f"| {m['id']} | {first} | {', '.join(m['detected_by']) or '**not detected**'} | {notes.get(m['id'], 'no')} |")
s = open(os.path.join(V, "DESIGN.md")).read()
a, b = s.index("<!-- DETECTION-TABLE-BEGIN -->"), s.index("<!-- DETECTION-TABLE-END -->")
s = s[:a] + "<!-- DETECTION-TABLE-BEGIN -->\n" + f"{n} changes, {caught} detected by at least one check (as recorded by the last `mc/tools/seed.py` run of each).\n\n" + "\n".join(rows) + "\n" + s[b:]
open(os.path.join(V, "DESIGN.md"), "w").write(s)
print(n, caught)
