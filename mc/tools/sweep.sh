#!/bin/bash
# sweep.sh <tier> <seed> [checks...] : runs the checks one after the other, prints the summary lines
tier=$1; seed=$2; shift 2
cs=${@:-C01 C02 C03 C04 C05 C06 C07 C08 C09 C10 C11 C12 C13 C14 C15 C16 C17 C18 C19 C20}
for c in $cs; do
  VERIF_SEED=$seed timeout 7200 /venv/bin/python /verif/mc/run.py $c --tier $tier $SWEEP_ARGS 2>&1 | grep -v "^KNOWN" | tail -1 | cut -c1-260
  echo "   rc=${PIPESTATUS[0]}"
done
