#!/bin/bash
# seed_round2.sh <Cxx>  : processes /tmp/wt/R2<Cxx>/MUT/{a,b,c}
declare -A REL=( [C01]="C01 C02" [C02]="C02 C01" [C03]="C03" [C04]="C04 C02" [C05]="C05 C01" [C06]="C06" [C07]="C07 C06 C18" [C08]="C08 C09 C15" [C09]="C09 C08" [C10]="C10" [C11]="C11" [C12]="C12" [C13]="C13 C02" [C14]="C14" [C15]="C15" [C16]="C16" [C17]="C17 C15" [C18]="C18 C07" [C19]="C19" [C20]="C20 C01" )
p=$1
for x in a b c; do
  d=/tmp/wt/R2$p/MUT/$x
  [ -f $d/patch.diff ] || continue
  echo "## $p-r2$x"
  SEED_STOP_AT_FIRST=1 timeout 2400 python3 /verif/mc/tools/seed.py $d $p-r2$x $p ${REL[$p]} 2>&1
done
