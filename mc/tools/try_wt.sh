#!/bin/bash
# usage: try_wt.sh <patch.diff> <Cxx> [<Cyy> ...]   applies the patch to the scratch worktree /tmp/wt/MINE (FINAM_SRC), runs the quick checks, undoes it
patch=$1; shift
wt=${WT:-/tmp/wt/MINE}
git -C $wt checkout -q -- . ; git -C $wt apply "$patch" || { echo "patch does not apply"; exit 2; }
for c in "$@"; do
  echo "=== $c with $(basename $(dirname $patch))"
  FINAM_SRC=$wt/src VERIF_REPLAYS=/tmp/wt/replays_mine VERIF_PROCS=${VERIF_PROCS:-8} /venv/bin/python /verif/mc/run.py $c --tier ${TIER:-quick} --no-evidence 2>&1 | grep -v '^KNOWN-FINDING' | tail -${TAIL:-6}
done
git -C $wt checkout -q -- . ; rm -rf /tmp/wt/replays_mine
