#!/bin/bash
# usage: confirm_mut.sh /tmp/wt/<id>/MUT/<x>    -> verifies in the agent's own scratch worktree, moved to /repo's HEAD
d=$1
wt=$(dirname $(dirname $d))
cd $wt || exit 2
git checkout -q -- . ; git checkout -q --detach $(git -C /repo rev-parse HEAD) || exit 2
[ -f src/finam/_version.py ] || cp /repo/src/finam/_version.py src/finam/_version.py
PYTHONPATH=$wt/src /venv/bin/python $d/demo.py >/dev/null 2>&1; echo "demo clean rc=$?"
git apply $d/patch.diff && echo "patch applies"
PYTHONPATH=$wt/src /venv/bin/python $d/demo.py >/dev/null 2>&1; echo "demo patched rc=$?"
python3 /verif/mc/tools/baseline.py $wt $( [ -z "$FULL" ] && echo --tests-only )
git checkout -q -- .
