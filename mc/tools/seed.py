#!/usr/bin/env python3
"""seed.py <agent mut dir> <seeded id> <property> <check> [<check>...]
Confirms an agent-made mutation (demo passes on the clean tree, fails with the patch, baseline tests unchanged) in the agent's
scratch worktree, runs the given quick checks against the patched scratch worktree (FINAM_SRC=<worktree>/src; equivalent to applying the patch to /repo, but leaves /repo untouched) and stores everything under /verif/seeded/<id>/."""
import json, os, re, shutil, subprocess, sys

mut, sid, prop, checks = sys.argv[1], sys.argv[2], sys.argv[3], sys.argv[4:]
wt = os.path.dirname(os.path.dirname(mut.rstrip("/")))
sh = lambda cmd, **kw: subprocess.run(cmd, shell=True, capture_output=True, text=True, **kw)
head = sh("git -C /repo rev-parse HEAD").stdout.strip()
sh(f"git -C {wt} checkout -q -- . ; git -C {wt} checkout -q --detach {head}")
if not os.path.exists(f"{wt}/src/finam/_version.py"):
    shutil.copy("/repo/src/finam/_version.py", f"{wt}/src/finam/_version.py")
env = dict(os.environ, PYTHONPATH=f"{wt}/src")
r_clean = sh(f"/venv/bin/python {mut}/demo.py", cwd=wt, env=env).returncode
ap = sh(f"git -C {wt} apply {mut}/patch.diff")
r_pat = sh(f"/venv/bin/python {mut}/demo.py", cwd=wt, env=env).returncode
bl = sh(f"python3 /verif/mc/tools/baseline.py {wt} --tests-only")
sh(f"git -C {wt} checkout -q -- .")
ok = r_clean == 0 and ap.returncode == 0 and r_pat != 0 and bl.returncode == 0
print(f"confirm: demo clean rc={r_clean} apply rc={ap.returncode} demo patched rc={r_pat} baseline: {bl.stdout.strip().splitlines()[0] if bl.stdout else bl.stderr[-200:]}  => {'CONFIRMED' if ok else 'NOT CONFIRMED'}")
if not ok:
    sys.exit(1)
results = {}
a = sh(f"git -C {wt} apply {mut}/patch.diff")
assert a.returncode == 0, a.stderr
rp = f"/tmp/wt/replays_{sid}"
try:
    for c in checks:
        r = sh(f"/venv/bin/python /verif/mc/run.py {c} --tier quick --no-evidence", env=dict(os.environ, FINAM_SRC=f"{wt}/src", VERIF_REPLAYS=rp, VERIF_PROCS=os.environ.get("VERIF_PROCS", "8")))
        viol = [l for l in r.stdout.splitlines() if l.startswith("VIOLATION")]
        fps = re.findall(r"fingerprint=(\{.*\})", r.stdout)
        results[c] = dict(exit=r.returncode, violations=len(viol), fingerprints=fps[:5], summary=r.stdout.strip().splitlines()[-1] if r.stdout.strip() else r.stderr[-300:])
        print(f"  {c}: exit={r.returncode} violations={len(viol)} {fps[:2]}", flush=True)
        if r.returncode == 1 and os.environ.get("SEED_STOP_AT_FIRST"):
            break
finally:
    sh(f"git -C {wt} checkout -q -- .")
    sh(f"rm -rf {rp}")
dst = f"/verif/seeded/{sid}"
os.makedirs(dst, exist_ok=True)
for f in ("patch.diff", "demo.py", "notes.md"):
    if os.path.exists(f"{mut}/{f}"):
        shutil.copy(f"{mut}/{f}", f"{dst}/{f}")
notes = open(f"{mut}/notes.md").read() if os.path.exists(f"{mut}/notes.md") else ""
meta = dict(id=sid, breaks_property=prop, origin="independent sub-agent given only the property text and a scratch worktree", repo_head_when_confirmed=head,
            needs_to_manifest=notes.strip().splitlines()[:12], confirmed=dict(demo_clean_rc=r_clean, demo_patched_rc=r_pat, baseline_tests_only=bl.stdout.strip().splitlines()[0]),
            checks_run=results, detected_by=[c for c, v in results.items() if v["exit"] == 1])
json.dump(meta, open(f"{dst}/meta.json", "w"), indent=1)
print("stored", dst, "detected_by", meta["detected_by"])
