#!/bin/bash
# seed_round4.sh <Cxx> : confirm and run the round-6 changes of one property
declare -A REL=( [C01]="C01 C02" [C02]="C02 C01" [C03]="C03" [C04]="C04 C02" [C05]="C05 C06" [C06]="C06 C05" [C07]="C07 C06 C18" [C08]="C08 C17 C18 C15" [C09]="C09 C10 C08" [C10]="C10" [C11]="C11" [C12]="C12 C11" [C13]="C13 C02 C04" [C14]="C14" [C15]="C15 C17" [C16]="C16 C14 C18" [C17]="C17 C08 C18" [C18]="C18 C07" [C19]="C19" [C20]="C20 C01" )
p=$1
for x in a b; do
  d=/tmp/wt/R7$p/MUT/$x
  [ -f $d/patch.diff ] || continue
  echo "## $p-r7$x"
  SEED_STOP_AT_FIRST=1 VERIF_PROCS=${VERIF_PROCS:-8} timeout 3000 python3 /verif/mc/tools/seed.py $d $p-r7$x $p ${REL[$p]} 2>&1
done
