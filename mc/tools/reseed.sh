#!/bin/bash
# reseed.sh <scratch worktree> <seeded id> <property> <check> [<check>...] : re-confirm a stored change and re-run checks against it (after strengthening)
wt=$1; id=$2; shift 2
[ -d $wt ] || { git -C /repo worktree add -q --detach $wt HEAD && cp /repo/src/finam/_version.py $wt/src/finam/_version.py; }
mkdir -p $wt/MUT/$id; cp /verif/seeded/$id/patch.diff /verif/seeded/$id/demo.py /verif/seeded/$id/notes.md $wt/MUT/$id/ 2>/dev/null
SEED_STOP_AT_FIRST=1 VERIF_PROCS=${VERIF_PROCS:-6} python3 /verif/mc/tools/seed.py $wt/MUT/$id $id "$@"
