#!/bin/bash
# usage: try_mut.sh <patch.diff> <Cxx> [<Cyy> ...]   applies the patch to /repo, runs the quick checks, undoes it
patch=$1; shift
cd /repo || exit 2
if [ -n "$(git status --porcelain)" ]; then echo "/repo not clean"; exit 2; fi
git apply "$patch" || { echo "patch does not apply"; exit 2; }
for c in "$@"; do
  echo "=== $c with $(basename $(dirname $patch))"
  /venv/bin/python /verif/mc/run.py $c --tier ${TIER:-quick} --no-evidence 2>&1 | grep -v '^KNOWN-FINDING' | tail -${TAIL:-6}
done
git checkout -- . ; git status --porcelain | head -3
rm -rf /verif/replays/C*  2>/dev/null
