"""Shared helpers: time lattice, quiet compositions, environment ownership."""
import logging
import os
import sys
import warnings
from datetime import datetime, timedelta
from fractions import Fraction

warnings.filterwarnings("ignore")

VERIF = os.path.dirname(os.path.dirname(os.path.dirname(os.path.abspath(__file__))))
REPO_SRC = os.environ.get("FINAM_SRC", "/repo/src")
if REPO_SRC not in sys.path:
    sys.path.insert(0, REPO_SRC)

import finam as fm  # noqa: E402

assert os.path.realpath(fm.__file__).startswith(os.path.realpath(REPO_SRC)), (
    "finam not imported from the working tree: " + fm.__file__
)

# logging is not a subject of any property: switch it off globally (ErrorLogger would otherwise print every expected refusal)
logging.disable(logging.CRITICAL)

T0 = datetime(2000, 1, 1)


_UNIT_US = 3600 * 10**6  # length of one abstract time unit ("hour") in microseconds


def set_time_unit(microseconds=3600 * 10**6):
    """all harness times are multiples of an abstract unit; the default unit is one hour. Checks switch it per case to re-run the
    same lattice at other scales (microseconds, weeks)"""
    global _UNIT_US
    _UNIT_US = int(microseconds)


def time_unit_seconds():
    return Fraction(_UNIT_US, 10**6)


def H(n):
    """n abstract units (int, float or Fraction) as timedelta"""
    return timedelta(microseconds=round(Fraction(n) * _UNIT_US))


def hrs(t):
    """datetime -> units since T0 as exact Fraction (None passes)"""
    if t is None:
        return None
    d = t - T0
    return Fraction(d.days * 86400 * 10**6 + d.seconds * 10**6 + d.microseconds, _UNIT_US)


def fh(t):
    """datetime -> float hours (for JSON)"""
    x = hrs(t)
    return None if x is None else float(x)


def compose(comps, **kw):
    kw.setdefault("print_log", False)
    kw.setdefault("log_level", logging.CRITICAL)
    return fm.Composition(comps, **kw)


def reset_global_state():
    """own module-level mutable state of finam between executions"""
    try:
        fm.data.tools.clear_units_cache()
    except Exception:  # pragma: no cover
        pass


def jsonable(x):
    import numpy as np

    if isinstance(x, dict):
        return {str(k): jsonable(v) for k, v in x.items()}
    if isinstance(x, (list, tuple, set, frozenset)):
        return [jsonable(v) for v in x]
    if isinstance(x, Fraction):
        return float(x) if x.denominator != 1 else int(x)
    if isinstance(x, (np.integer,)):
        return int(x)
    if isinstance(x, (np.floating,)):
        return float(x)
    if isinstance(x, np.ndarray):
        return jsonable(x.tolist())
    if isinstance(x, datetime):
        return x.isoformat()
    if isinstance(x, timedelta):
        return x.total_seconds()
    if x is None or isinstance(x, (bool, int, float, str)):
        return x
    return repr(x)
