"""Check runner: aggregates per-case results, known-findings handling, evidence, replays."""
import collections
import hashlib
import importlib
import json
import os
import subprocess
import sys
import time

from .common import VERIF, jsonable

KNOWN = os.path.join(VERIF, "known_findings.json")
PY = sys.executable


def fp_key(fp):
    return json.dumps(jsonable(fp), sort_keys=True)


class Agg:
    """Aggregates what the cases of one check covered."""

    def __init__(self):
        self.evaluations = 0
        self.states = 0
        self.transitions = 0
        self.traces = 0
        self.nontrivial = 0
        self.counters = collections.Counter()
        self.samples = []
        self.viol = {}  # fp_key -> dict(fp, what, case, count)
        self.capped = []
        self.known_keys = set()  # fingerprints of the open known findings (they never stop a run early)
        self.unlisted_cases = 0  # cases (work items) that reported at least one violation outside the known findings
        self.stopped_early = None

    def enough(self):
        """a tree in which hundreds of work items violate the property is broken all over: stop exploring, report what was found
        (the run exits 1 anyway; the evidence says that it was cut short)"""
        limit = int(os.environ.get("VERIF_STOP_AFTER", "400"))
        if self.unlisted_cases >= limit:
            self.stopped_early = dict(after_violating_work_items=self.unlisted_cases, evaluations=self.evaluations)
            return True
        return False

    def add(self, res):
        self.evaluations += res.get("n", 1)
        self.states += res.get("states", 0)
        self.transitions += res.get("transitions", 0)
        self.traces += res.get("traces", 0)
        self.nontrivial += res.get("nontrivial", 0)
        for k, v in (res.get("counters") or {}).items():
            self.counters[k] += v
        if res.get("sample") is not None and len(self.samples) < 6:
            self.samples.append(jsonable(res["sample"]))
        if res.get("capped"):
            self.capped.append(jsonable(res["capped"]))
        if any(fp_key(v["fp"]) not in self.known_keys for v in res.get("violations", [])):
            self.unlisted_cases += 1
        for v in res.get("violations", []):
            k = fp_key(v["fp"])
            cur = self.viol.get(k)
            size = len(json.dumps(jsonable(v["case"])))
            if cur is None:
                self.viol[k] = dict(fp=jsonable(v["fp"]), what=v["what"], case=jsonable(v["case"]), count=1, size=size, alts=[])
            else:
                cur["count"] += 1
                if size < cur["size"]:
                    cur["alts"].append((cur["what"], cur["case"]))
                    cur.update(what=v["what"], case=jsonable(v["case"]), size=size)
                else:
                    cur["alts"].append((v["what"], jsonable(v["case"])))
                # alternatives: a few more examples of the same fingerprint; those that carry their own history (a first run in the same
                # process) are kept preferably - they reproduce in a fresh process when the smallest example only failed because of what ran before it
                ab = [a for a in cur["alts"] if '"prelude": "aborted"' in json.dumps(a[1])]
                tr = [a for a in cur["alts"] if '"prelude": true' in json.dumps(a[1])]
                cur["alts"] = (ab[:2] + tr[:2] + [a for a in cur["alts"] if a not in ab and a not in tr])[:6]


def viol(fp, what, case):
    return dict(fp=fp, what=what, case=case)


def load_known(pid):
    if not os.path.exists(KNOWN):
        return []
    with open(KNOWN) as f:
        data = json.load(f)
    return [e for e in data.get("findings", []) if e.get("property") == pid]


def main(argv=None):
    import argparse

    ap = argparse.ArgumentParser()
    ap.add_argument("pid")
    ap.add_argument("--tier", default=os.environ.get("VERIF_TIER", "quick"), choices=["quick", "thorough"])
    ap.add_argument("--seed", type=int, default=int(os.environ.get("VERIF_SEED", "0") or 0))
    ap.add_argument("--no-evidence", action="store_true")
    args = ap.parse_args(argv)
    pid = args.pid.upper()
    mod = importlib.import_module("checks." + pid.lower())
    t0 = time.time()
    agg = Agg()
    agg.known_keys = {fp_key(e["fingerprint"]) for e in load_known(pid) if e.get("status") == "open"}
    from . import pool

    pool.STOP = agg.enough
    info = mod.run(args.tier, args.seed, agg)  # returns dict(level, rule, bound, assumptions, extra)
    wall = time.time() - t0

    known = load_known(pid)
    open_known = [e for e in known if e.get("status") == "open"]
    unlisted = []
    known_hit = {}
    for k, v in sorted(agg.viol.items()):
        hit = None
        for e in open_known:
            if fp_key(e["fingerprint"]) == k:
                hit = e
                break
        if hit is not None:
            known_hit[k] = (hit, v)
        else:
            unlisted.append(v)

    rc = 0
    for k, (e, v) in known_hit.items():
        print(f"KNOWN-FINDING: property={pid} {e['what']} (seen {v['count']}x this run)")
    rdir = os.path.join(os.environ.get("VERIF_REPLAYS", os.path.join(VERIF, "replays")), pid)
    for v in unlisted:
        os.makedirs(rdir, exist_ok=True)
        h = hashlib.sha1(fp_key(v["fp"]).encode()).hexdigest()[:12]
        path = os.path.join(rdir, h + ".json")
        ok = False
        for what, case in [(v["what"], v["case"])] + list(v.get("alts", [])):
            rec = dict(property=pid, fingerprint=v["fp"], what=what, case=case, count=v["count"])
            with open(path, "w") as f:
                json.dump(rec, f, indent=1, sort_keys=True)
            # determinism: the same record must fail the same way in a fresh process, twice (the search itself ran in long-lived workers, where an
            # example may have failed only because of what ran before it; then the next example of the same fingerprint is tried)
            ok = True
            for _ in range(2):
                p = subprocess.run([PY, os.path.join(VERIF, "mc", "replay.py"), path], capture_output=True, text=True)
                if p.returncode != 1:
                    ok = False
                    break
            if ok:
                v = dict(v, what=what, case=case)
                break
        if not ok:
            print(f"INTERNAL: not reproducible in a fresh process for {pid} {fp_key(v['fp'])} (replay {path}; the example failed only after other work in the same worker process: harness nondeterminism or state leaking between executions)")
            rc = rc or 2
            continue
        print(f"  {v['what']}  [{v['count']}x]  fingerprint={fp_key(v['fp'])}")
        print(f"VIOLATION property={pid} replay={path}")
        rc = 1  # a reproduced violation decides the exit code (2 = only unreproducible reports)

    level = info.get("level", "model_checking")
    cov = dict(
        exhaustive=not agg.capped and not agg.stopped_early and info.get("exhaustive", True),
        bound=info.get("bound"),
        rule=info.get("rule", ""),
        evaluations=agg.evaluations,
        distinct_nontrivial=agg.nontrivial,
        samples=agg.samples or info.get("samples") or [],
        counters=dict(sorted(agg.counters.items())),
        known_findings_seen=[e["what"] for e, _ in known_hit.values()],
        violation_fingerprints=len(agg.viol),
    )
    if agg.stopped_early:
        cov["stopped_early"] = agg.stopped_early
    if agg.capped:
        cov["caps_hit"] = agg.capped[:10]
    if level == "model_checking":
        cov.update(states=agg.states, transitions=agg.transitions, traces_validated_against_impl=agg.traces)
    cov.update(info.get("extra") or {})
    ev = dict(
        property_id=pid,
        tier=args.tier,
        seed=args.seed,
        level=level,
        coverage=cov,
        assumptions=info.get("assumptions", []),
        wall_s=round(wall, 2),
        violations=len(unlisted),
    )
    if not args.no_evidence:
        os.makedirs(os.path.join(VERIF, "evidence"), exist_ok=True)
        with open(os.path.join(VERIF, "evidence", pid + ".json"), "w") as f:
            json.dump(ev, f, indent=1)
    print(
        f"{pid} tier={args.tier} seed={args.seed} level={level} evaluations={agg.evaluations} states={agg.states} "
        f"transitions={agg.transitions} nontrivial={agg.nontrivial} unlisted_violations={len(unlisted)} "
        f"known={len(known_hit)} wall={wall:.1f}s exhaustive={cov['exhaustive']}"
    )
    return rc
