"""Deliberately boring reference models (unlimited history, exact Fractions).

A reference link is a chain  RefSource -> [ref adapters] -> consumer  driven by the same events
as the real link:  source.publish(t, v) (which notifies the chain)  and  link.pull(t).
Answers are *sets* of acceptable values (a tie at an exact mid-point accepts either neighbour);
ANY means the statement leaves the answer open; Refuse means the request must be refused.
"""
from fractions import Fraction as Fr


class Refuse(Exception):
    def __init__(self, why):
        super().__init__(why)
        self.why = why


class _Any:
    def __repr__(self):
        return "ANY"


ANY = _Any()


def vmap(f, *sets):
    """apply f over all combinations of acceptable values"""
    if any(s is ANY for s in sets):
        return ANY
    out = set()

    def rec(i, args):
        if i == len(sets):
            out.add(f(*args))
            return
        for v in sets[i]:
            rec(i + 1, args + [v])

    rec(0, [])
    return frozenset(out)


def _rel(t, ctx):
    """time relative to the normalisation origin (None: absolute); older than the cut -> 'old'"""
    if ctx is None or t is None:
        return t
    r = t - ctx["origin_h"]
    return "old" if r < -ctx["cut_h"] else r


class Canon:
    """canonical state: attributes in TIMES are times, in SERIES lists of (time, value); everything else verbatim"""

    TIMES = ()
    SERIES = ()
    TLISTS = ()

    def __canon__(self, ctx):
        d = {}
        for k, v in sorted(self.__dict__.items()):
            if k in self.TIMES:
                d[k] = _rel(v, ctx)
            elif k in self.SERIES:
                d[k] = [(_rel(t, ctx), x) for t, x in v]
            elif k in self.TLISTS:
                d[k] = [_rel(t, ctx) for t in v]
            else:
                d[k] = v
        return d


class RefSource(Canon):
    """publication history of a push output; served by nearest publication time"""

    SERIES = ("hist",)

    def __init__(self):
        self.hist = []
        self.targets = []

    def publish(self, t, v):
        self.hist.append((t, v))
        for tg in self.targets:
            tg.notify(t)

    @property
    def newest(self):
        return self.hist[-1][0] if self.hist else None

    def get(self, t):
        if not self.hist:
            raise Refuse("nodata")
        if t < self.hist[0][0]:
            raise Refuse("past")
        if t > self.hist[-1][0]:
            raise Refuse("future")
        d = min(abs(t - ti) for ti, _ in self.hist)
        return frozenset(v for ti, v in self.hist if abs(t - ti) == d)

    def prune(self, floor):
        """forget entries that no request >= floor can select (keeps the last entry <= floor)"""
        if floor is None:
            return
        k = 0
        for i, (t, _) in enumerate(self.hist):
            if t <= floor:
                k = i
        if k:
            del self.hist[:k]


class RefFunc:
    """a pull-based source: value computed on demand by a function of the request time"""

    def __init__(self, func):
        self.func = func
        self.targets = []

    def get(self, t):
        return self.func(t)


class RAdapter(Canon):
    buffering = False
    TIMES = ("init", "last", "prev", "first_t")
    SERIES = ("buf",)
    TLISTS = ("pulls",)

    def __init__(self):
        self.src = None
        self.targets = []

    def notify(self, t):
        self.on_notify(t)
        for tg in self.targets:
            tg.notify(t)

    def on_notify(self, t):
        pass

    def shift(self, t):
        """time that reaches the source for a request at t (pass-through: unchanged)"""
        return t

    def floor(self, f):
        """given that all future requests are >= f: lower bound of the times that will reach the source;
        prunes own state accordingly"""
        return f


class RScale(RAdapter):
    def __init__(self, s):
        super().__init__()
        self.s = Fr(s)

    def get(self, t):
        return vmap(lambda v: v * self.s, self.src.get(t))


class RDelayFixed(RAdapter):
    def __init__(self, d, init):
        super().__init__()
        self.d, self.init = Fr(d), init

    def shift(self, t):
        return max(t - self.d, self.init)

    def get(self, t):
        return self.src.get(self.shift(t))

    def floor(self, f):
        return max(f - self.d, self.init)


class RDelayToPull(RAdapter):
    def __init__(self, n, x, init):
        super().__init__()
        self.n, self.x, self.init = n, Fr(x), init
        self.pulls = []

    def shift(self, t):
        base = self.pulls[-self.n] if len(self.pulls) >= self.n else self.init
        return max(base - self.x, self.init)

    def get(self, t):
        r = self.src.get(self.shift(t))
        self.pulls.append(t)
        del self.pulls[: -self.n]
        return r

    def floor(self, f):
        base = self.pulls[0] if len(self.pulls) >= self.n else self.init
        return max(base - self.x, self.init)


class RDelayToPush(RAdapter):
    no_dependency = True

    def __init__(self, init):
        super().__init__()
        self.init = init
        self.last = None

    def on_notify(self, t):
        self.last = t

    def shift(self, t):
        if self.last is None:
            return self.init
        return min(t, self.last)

    def get(self, t):
        return self.src.get(self.shift(t))

    def floor(self, f):
        return self.init if self.last is None else min(f, self.last)


class RBuffer(RAdapter):
    """push-notified adapter: pulls its source at every notification, unlimited buffer"""

    buffering = True

    def __init__(self):
        super().__init__()
        self.buf = []

    def on_notify(self, t):
        self.buf.append((t, self.src.get(t)))

    def check(self, t):
        if not self.buf:
            raise Refuse("nodata")
        if t > self.buf[-1][0]:
            raise Refuse("future")
        if t < self.buf[0][0]:
            raise Refuse("past")

    def floor(self, f):
        prev = getattr(self, "prev", None)
        if prev is not None:
            f = min(f, prev)
        k = 0
        for i, (t, _) in enumerate(self.buf):
            if t <= f:
                k = i
        if k:
            del self.buf[:k]
        # upstream is only asked at notification times, i.e. never again below the newest one
        return self.buf[-1][0] if self.buf else None

    def bracket(self, t):
        """(t0,v0),(t1,v1) with t0 <= t <= t1, t0 the last entry <= t, t1 the first >= t"""
        lo = max((e for e in self.buf if e[0] <= t), key=lambda e: e[0])
        hi = min((e for e in self.buf if e[0] >= t), key=lambda e: e[0])
        return lo, hi


class RNext(RBuffer):
    def get(self, t):
        self.check(t)
        return self.bracket(t)[1][1]


class RPrev(RBuffer):
    def get(self, t):
        self.check(t)
        return self.bracket(t)[0][1]


class RLinear(RBuffer):
    def get(self, t):
        self.check(t)
        (t0, v0), (t1, v1) = self.bracket(t)
        if t0 == t1:
            return v0
        f = (t - t0) / (t1 - t0)
        return vmap(lambda a, b: a + f * (b - a), v0, v1)


class RStep(RBuffer):
    def __init__(self, p):
        super().__init__()
        self.p = Fr(p)

    def get(self, t):
        self.check(t)
        (t0, v0), (t1, v1) = self.bracket(t)
        if t0 == t1:
            return v0
        f = (t - t0) / (t1 - t0)
        return v1 if f > self.p else v0


def integral(buf, p0, p1, step):
    """exact integral over [p0,p1] of the interpolant of buf=[(t,v)] (v plain Fractions);
    step None = linear, else step interpolant with relative position step. Units: value*hours"""
    total = Fr(0)
    for (t0, v0), (t1, v1) in zip(buf, buf[1:]):
        a, b = max(p0, t0), min(p1, t1)
        if b <= a:
            continue
        if step is None:
            fa, fb = (a - t0) / (t1 - t0), (b - t0) / (t1 - t0)
            va, vb = v0 + fa * (v1 - v0), v0 + fb * (v1 - v0)
            total += (b - a) * (va + vb) / 2
        else:
            ts = t0 + Fr(step) * (t1 - t0)  # old value up to and including ts, new value after
            lo_len = max(Fr(0), min(b, ts) - a)
            hi_len = max(Fr(0), b - max(a, ts))
            total += lo_len * v0 + hi_len * v1
    return total


def weighted_sum(buf, p0, p1, step):
    """the 'plain weighted sum' of SumOverTime(per_time=False): each publication interval contributes its
    interval-normalised integral (fraction of the interval covered times mean value there)"""
    total = Fr(0)
    for (t0, v0), (t1, v1) in zip(buf, buf[1:]):
        a, b = max(p0, t0), min(p1, t1)
        if b <= a:
            continue
        total += integral([(t0, v0), (t1, v1)], a, b, step) / (t1 - t0)
    return total


class RIntegrate(RBuffer):
    """common part of Avg/Sum: remembers the previous pull time"""

    def __init__(self, step):
        super().__init__()
        self.step = None if step is None else Fr(step)
        self.prev = None

    def on_notify(self, t):
        super().on_notify(t)
        self.npub = min(getattr(self, "npub", 0) + 1, 2)
        if self.prev is None:
            self.prev = t
            self.first_t = t

    def initial_case(self, t):
        """only one publication so far, or a request for the very first publication time: the published value itself"""
        return self.npub == 1 or t <= self.first_t

    def combos(self):
        """all single-valued versions of the buffer (ties upstream give sets)"""
        if any(v is ANY for _, v in self.buf):
            return None
        res = [[]]
        for t, vs in self.buf:
            res = [r + [(t, v)] for r in res for v in vs]
            if len(res) > 64:
                return None
        return res


class RAvg(RIntegrate):
    def get(self, t):
        self.check(t)
        p0, self.prev = self.prev, t
        if self.initial_case(t):
            return self.bracket(t)[0][1]
        if p0 >= t:
            return ANY  # statement is about p0 < p1 only
        cs = self.combos()
        if cs is None:
            return ANY
        return frozenset(integral(c, p0, t, self.step) / (t - p0) for c in cs)


class RSum(RIntegrate):
    def __init__(self, step, per_time, unit_seconds=3600, initial_interval=0):
        super().__init__(step)
        self.per_time = per_time
        self.k = Fr(unit_seconds)  # integral is in value*hours; k converts hours to the reduced time unit
        self.ii = Fr(initial_interval)

    def get(self, t):
        self.check(t)
        p0, self.prev = self.prev, t
        if self.initial_case(t):
            v0 = self.bracket(t)[0][1]
            if self.per_time:
                return vmap(lambda v: v * self.ii * self.k, v0)
            return v0
        if p0 >= t:
            return ANY
        cs = self.combos()
        if cs is None:
            return ANY
        if self.per_time:
            return frozenset(integral(c, p0, t, self.step) * self.k for c in cs)
        return frozenset(weighted_sum(c, p0, t, self.step) for c in cs)


def make_ref(tok, init):
    k = tok[0]
    if k == "S":
        return RScale(tok[1])
    if k in ("R", "K"):
        return RScale(1)
    if k == "L":
        return RLinear()
    if k == "N":
        return RNext()
    if k == "V":
        return RPrev()
    if k == "T":
        return RStep(tok[1])
    if k == "A":
        return RAvg(tok[1])
    if k == "M":
        return RSum(tok[1], tok[2], *(tok[3:]))
    if k == "F":
        return RDelayFixed(tok[1], init)
    if k == "P":
        return RDelayToPull(tok[1], tok[2] if len(tok) > 2 else 0, init)
    if k == "U":
        return RDelayToPush(init)
    raise ValueError(tok)


class RefLink:
    """source -> chain (tokens listed source->sink) -> consumer"""

    def __init__(self, source, chain, init):
        self.source = source
        self.ads = [make_ref(tok, init) for tok in chain]
        prev = source
        for a in self.ads:
            a.src = prev
            prev.targets.append(a)
            prev = a
        self.top = prev

    def pull(self, t):
        return self.top.get(t)

    def prune(self, f):
        """all future pulls are >= f (None: unknown): prunes the adapters, returns the floor at the source"""
        for a in reversed(self.ads):
            if f is None:
                return None
            f = a.floor(f)
        return f

    def required(self, t):
        """publication time the source must have reached so that a pull at t can be served;
        None = no requirement (a dependency-breaking adapter takes effect).
        Walks from the consumer upstream; nothing upstream of the first push-notified adapter
        lowers the requirement (notifications carry the publication time unchanged)."""
        for a in reversed(self.ads):
            if a.buffering:
                return t
            if getattr(a, "no_dependency", False):
                return None
            t = a.shift(t)
        return t

    def endpoint_request_at_source(self, newest):
        """for a link with a push-notified adapter: that adapter is the end point registered at the output; it pulls at every
        notification, through whatever adapters sit between it and the source - the last request seen by the source is the
        newest publication time shifted by those adapters"""
        j = next(i for i, a in enumerate(self.ads) if a.buffering)
        t = newest
        for a in reversed(self.ads[:j]):
            t = a.shift(t)
        return t

    def request_time_at_source(self, t):
        """time argument that reaches the source during a consumer pull at t; None if the pull is
        answered from a buffer (a push-notified adapter sits on the link)"""
        for a in reversed(self.ads):
            if a.buffering:
                return None
            t = a.shift(t)
        return t


def close(a, b, tol=1e-9):
    return abs(float(a) - float(b)) <= tol * max(1.0, abs(float(a)), abs(float(b)))


def accepts(expected, got):
    if expected is ANY:
        return True
    return any(close(e, got) for e in expected)
