"""Long-lived fork pool; workers return plain data."""
import multiprocessing as mp
import os

_POOL = None
STOP = None  # set by the runner: returns True once so many work items violated the property that further exploration is pointless


def nproc():
    return int(os.environ.get("VERIF_PROCS", "16"))


def pmap(func, items, chunksize=1):
    items = list(items)
    if nproc() <= 1 or len(items) <= 1:
        for it in items:
            yield func(it)
            if STOP is not None and STOP():
                return
        return
    ctx = mp.get_context("fork")
    with ctx.Pool(min(nproc(), len(items))) as pool:
        for r in pool.imap_unordered(func, items, chunksize=chunksize):
            yield r
            if STOP is not None and STOP():
                pool.terminate()
                return
