"""Generic canonical fingerprints of live object graphs (no private attribute names)."""
import collections
import enum
import hashlib
import logging
import types
from datetime import datetime, timedelta
from fractions import Fraction

import numpy as np
import pint

SKIP_TYPES = (logging.Logger, logging.Handler, types.ModuleType, types.FunctionType, types.BuiltinFunctionType, type)
SKIP_KEYS = frozenset()


def canon_tokens(root, skip_keys=SKIP_KEYS, tnorm=None):
    """tnorm=(origin datetime, cut seconds): datetimes are written relative to origin, anything older than cut as 'old'
    (time-translation normalisation, used by engine C; argued in DESIGN.md)"""
    out = []
    ids = {}
    ap = out.append
    ctx = None
    if tnorm is not None:
        from .common import hrs

        from .common import time_unit_seconds

        ctx = dict(origin_h=hrs(tnorm[0]), cut_h=Fraction(tnorm[1]) / time_unit_seconds())

    def w(o):
        if o is None or o is True or o is False:
            ap(repr(o))
            return
        t = type(o)
        if t is int or t is str or t is float:
            ap(repr(o))
            return
        if t is Fraction:
            ap("Fr%s/%s" % (o.numerator, o.denominator))
            return
        if t is datetime:
            if tnorm is None:
                ap(o.isoformat())
            else:
                rel = (o - tnorm[0]).total_seconds()
                ap("old" if rel < -tnorm[1] else "t%r" % rel)
            return
        if t is timedelta:
            ap("td%r" % o.total_seconds())
            return
        if isinstance(o, enum.Enum):
            ap(t.__name__ + "." + o.name)
            return
        if isinstance(o, np.generic):
            ap(repr(o.item()))
            return
        if isinstance(o, pint.Quantity):
            ap("Q[")
            w(o.magnitude)
            ap(str(o.units))
            ap("]")
            return
        if isinstance(o, pint.Unit):
            ap("U" + str(o))
            return
        if isinstance(o, np.ma.MaskedArray):
            ap("MA%s%s" % (o.dtype, o.shape))
            ap(hashlib.md5(np.ascontiguousarray(o.filled(0)).tobytes()).hexdigest())
            ap(hashlib.md5(np.ascontiguousarray(np.ma.getmaskarray(o)).tobytes()).hexdigest())
            return
        if isinstance(o, np.ndarray):
            ap("A%s%s" % (o.dtype, o.shape))
            ap(hashlib.md5(np.ascontiguousarray(o).tobytes()).hexdigest())
            return
        if isinstance(o, SKIP_TYPES):
            return
        if isinstance(o, types.MethodType):
            ap("M:" + o.__func__.__name__)
            w(o.__self__)
            return
        i = ids.get(id(o))
        if i is not None:
            ap("@%d" % i)
            return
        ids[id(o)] = len(ids)
        cn = getattr(o, "__canon__", None)
        if cn is not None:
            ap("<" + t.__name__)
            w(cn(ctx))
            ap(">")
            return
        if isinstance(o, dict):
            ap("{")
            for k, v in o.items():
                w(k)
                ap(":")
                w(v)
            ap("}")
            return
        if isinstance(o, (list, tuple, collections.deque)):
            ap("[")
            for v in o:
                w(v)
                ap(",")
            ap("]")
            return
        if isinstance(o, (set, frozenset)):
            # elements already visited are identified by their visit index; others by class/name
            def key(e):
                j = ids.get(id(e))
                if j is not None:
                    return (0, j, "")
                return (1, 0, type(e).__name__ + ":" + str(getattr(e, "name", "")) + ":" + (repr(e) if isinstance(e, (int, str, float, Fraction, tuple)) else ""))

            ap("S{")
            for e in sorted(o, key=key):
                w(e)
                ap(",")
            ap("}")
            return
        d = getattr(o, "__dict__", None)
        ap("<" + t.__name__)
        if d is not None:
            for k in sorted(d):
                if k in skip_keys:
                    continue
                v = d[k]
                if isinstance(v, SKIP_TYPES):
                    continue
                ap(k + "=")
                w(v)
        else:
            slots = getattr(t, "__slots__", None)
            if slots:
                for k in slots:
                    if hasattr(o, k):
                        ap(k + "=")
                        w(getattr(o, k))
            else:
                ap(repr(o))
        ap(">")

    w(root)
    return out


def fingerprint(root, skip_keys=SKIP_KEYS, tnorm=None):
    toks = canon_tokens(root, skip_keys, tnorm)
    return hashlib.md5("\x1f".join(toks).encode()).digest()
