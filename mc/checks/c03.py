"""C03 - a run terminates, reaches the end time, walks each life cycle once (engine A)."""
import itertools

from harness import acheck
from harness import families as F

CLAUSES = ("C03.",)


def judge(cfg, res):
    out = []
    for outcome, path in res.get("nonfinal", []):
        if outcome[0] == "exc":
            out.append((dict(kind="run_raised", error=outcome[1]), f"run(end={cfg['end']}) of a valid composition raised {outcome[1]}: {outcome[2]}", path))
        elif outcome[0] == "circular":
            out.append((dict(kind="run_raised", error="FinamCircularCouplingError"), f"valid composition reported as circular: {outcome[1][:120]}", path))
    return out


def base_cfgs(tier, fixed):
    """valid compositions; with fixed=True the step menus are replaced by cyclic step lists (fixed-sequence mode)"""
    q = tier == "quick"
    cs = []
    for ch in F.chains(["L", "A", "F1", "P1", "U", "S"], 1):
        cs.append(F.pair(ch))
        cs.append(F.pair(ch, order=("B", "A"), starts=(0, 1)))
        cs.append(F.pair(ch, starts=(2, 0)))
    for c1, c2 in [([], []), ([F.TOK["L"]], [F.TOK["F1"]]), ([F.TOK["A"]], [F.TOK["L"]]), ([F.TOK["F1"]], [F.TOK["F1"]])]:
        for order in F.orders(["A", "B", "C"], all_orders=not q):
            cs.append(F.line3(c1, c2, order=order))
        cs.append(F.join3(c1, c2))
        cs.append(F.fan3(c1, c2, order=("C", "A", "B")))
    # a user-style adapter that keeps its last result in an attribute named `data`, between other adapters
    for ch in ([["K"]], [F.TOK["S"], ["K"], F.TOK["S"]], [F.TOK["L"], ["K"]], [["K"], F.TOK["F1"]]):
        cs.append(F.pair(ch))
        cs.append(F.pair(ch, order=("B", "A")))
    # components with their own clock (implement ITimeComponent directly instead of deriving from the sdk's TimeComponent)
    for who in ((1,), (0,), (0, 1)):
        for ch in ([], [F.TOK["L"]], [F.TOK["F1"]]):
            c = F.pair(ch)
            for k in who:
                c["comps"][k]["own_clock"] = True
            cs.append(c)
    for who in ((2,), (0, 2), (1,)):
        c = F.line3([], [F.TOK["L"]], order=("C", "A", "B"))
        for k in who:
            c["comps"][k]["own_clock"] = True
        cs.append(c)
    # leaf consumers that declare themselves FINISHED before the end time (they must not be updated again, the run still ends)
    for fin in (1, 2, 3.5):
        for order in (("A", "B"), ("B", "A")):
            c = F.pair([], order=order)
            c["comps"][1]["finish_at"] = fin
            cs.append(c)
        c = F.pair([F.TOK["L"]], starts=(0, 1))
        c["comps"][1]["finish_at"] = fin
        cs.append(c)
        for order in (("A", "B", "C"), ("C", "B", "A"), ("B", "C", "A")):
            c = F.fan3([], [F.TOK["F1"]], order=order)
            c["comps"][2]["finish_at"] = fin
            cs.append(c)
            c = F.line3([], [], order=order)
            c["comps"][2]["finish_at"] = fin
            cs.append(c)
    for order in F.orders(["A", "P", "B"], all_orders=not q):
        cs.append(F.viaP([], [], order=order, menu=(1, 2)))
        cs.append(F.viaP([F.TOK["L"]], [F.TOK["F1"]], order=order, menu=(1, 2)))
    cs.append(F.viaP2([], [], []))
    cs.append(F.viaP2([], [F.TOK["F1"]], []))
    cs.append(F.viaPdup([], [F.TOK["F1"]], []))
    cs.append(F.viaPdup([], [F.TOK["F1"]], [], order=("B", "P", "A")))
    # fan-out behind a shared adapter with further adapters on the later branch (every one of them must be finalized once)
    for order in (("A", "B", "C"), ("C", "B", "A")):
        cs.append(F.fan3trunk([F.TOK["S"]], [], [F.TOK["S"], F.TOK["L"]], order=order))
        cs.append(F.fan3trunk([F.TOK["S"], F.TOK["S"]], [F.TOK["L"]], [F.TOK["F1"], F.TOK["S"]], order=order))
    cs.append(F.viaPP([], [], []))
    cs.append(F.diamondP())
    for mat in ([["F", 4]], [["F", 2], ["F", 2]], [["U"]]):
        cs.append(F.ring(2, {1: mat}, menu=(1, 2)))
        cs.append(F.ring(2, {0: mat}, menu=(1, 2), order=("B", "A")))
    cs.append(F.ring(3, {2: [["F", 6]]}, menu=(1, 2)))
    cs.append(F.ring(3, {1: [["U"]]}, menu=(1, 2), tail=True))
    if fixed:
        out = []
        lists = [[1], [2], [3], [1, 2], [2, 3], [3, 1]] if not q else [[1], [2], [1, 2], [3, 1]]
        for c in cs:
            tcs = [x for x in c["comps"] if x["kind"] == "T"]
            mx = max(c["comps"][0]["menu"]) if tcs else 1
            pool = [l for l in lists if max(l) <= mx]
            for k, combo in enumerate(itertools.product(pool, repeat=len(tcs))):
                if len(tcs) > 2 and k % (3 if q else 1):
                    continue
                c2 = dict(c, comps=[dict(x) for x in c["comps"]])
                for x, fx in zip([x for x in c2["comps"] if x["kind"] == "T"], combo):
                    x["fixed"] = list(fx)
                out.append(c2)
        return out
    return cs


def cases(tier):
    q = tier == "quick"
    cs = []
    # choice mode: three end times per family (before the first step boundary, on a common multiple, off every grid)
    for c in base_cfgs(tier, False):
        for end in ((-1, 0, 0.5, 1, 2, 3.5, 4.5, 6, 7.5, 9) if not q else (-1, 0, 0.5, 2, 3.5, 4.5, 6)):
            cs.append(dict(c, end=end))
    # fixed-sequence mode: the full end-time lattice
    ends = [x / 2 for x in range(-2, 15 if q else 25)]
    for c in base_cfgs(tier, True):
        for end in ends:
            cs.append(dict(c, end=end))
    # the same at another time scale (one unit = 100 microseconds): end times within a millisecond of a component's time
    for c in base_cfgs(tier, False)[::7]:
        for end in (0.5, 2, 3.5):
            cs.append(dict(c, end=end, unit_us=100))
    # long runs (hundreds of updates, steps from seconds to weeks)
    for c in base_cfgs(tier, False)[:: (6 if q else 2)]:
        tcs = [x for x in c["comps"] if x["kind"] == "T"]
        if any(x.get("finish_at") for x in tcs):
            continue
        lists = [[1, 2.5, 0.75], [2, 1, 1, 3.5], [0.5, 3]][: len(tcs)]
        if len(lists) < len(tcs):
            continue
        c2 = dict(c, comps=[dict(x) for x in c["comps"]], end=250.25, update_cap=5000)
        for x, fx in zip([x for x in c2["comps"] if x["kind"] == "T"], lists):
            x["fixed"] = fx
        if c2["family"].startswith("ring"):
            continue
        cs.append(c2)
    return cs


def run(tier, seed, agg):
    cs = cases(tier)
    cs += [dict(c, stateless=5 if tier == 'quick' else 7) for c in cs if not any(x.get('fixed') for x in c['comps']) and c['end'] in (3.5, 6)]
    acheck.run_cases(cs, CLAUSES, agg, judge, seed)
    return dict(
        level="model_checking",
        rule="explicit-state BFS over the real Composition.run for 7 (quick) / 10 (thorough) end times per family (step lengths are environment choices) plus fixed cyclic step lists crossed with the full half-hour "
        "end-time lattice (incl. end <= start); life-cycle automaton per component and finalize counter per adapter are part of the state; update cap turns a hang into a violation",
        bound=dict(end_times="-1 .. 7 h" if tier == "quick" else "-1 .. 12 h (half-hour lattice)", step_menu="{1,2,3}/{1,2}", update_cap=400),
        assumptions=["only leaf consumers declare themselves FINISHED early (a producer that finishes while a consumer still needs it is not a valid composition)", "valid compositions only (acyclic or delay-resolved rings)"],
    )


def replay(case):
    return acheck.replay_case(case, CLAUSES, judge)
