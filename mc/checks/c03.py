"""C03 - a run terminates, reaches the end time, walks each life cycle once (engine A)."""
import itertools

import os as _os

# one scratch root per run (pid of the importing process, inherited by forked workers): concurrent runs must not remove each other's files
WORK_ROOT = _os.path.join(_os.path.dirname(_os.path.dirname(_os.path.dirname(_os.path.abspath(__file__)))), "work", "C03-%d" % _os.getpid())

from harness import acheck
from harness import families as F

CLAUSES = ("C03.",)


def judge(cfg, res):
    out = []
    for outcome, path in res.get("nonfinal", []):
        if outcome[0] == "exc":
            out.append((dict(kind="run_raised", error=outcome[1]), f"run(end={cfg['end']}) of a valid composition raised {outcome[1]}: {outcome[2]}", path))
        elif outcome[0] == "circular":
            out.append((dict(kind="run_raised", error="FinamCircularCouplingError"), f"valid composition reported as circular: {outcome[1][:120]}", path))
    return out


def base_cfgs(tier, fixed):
    """valid compositions; with fixed=True the step menus are replaced by cyclic step lists (fixed-sequence mode)"""
    q = tier == "quick"
    cs = []
    for ch in F.chains(["L", "A", "F1", "P1", "U", "S"], 1):
        cs.append(F.pair(ch))
        cs.append(F.pair(ch, order=("B", "A"), starts=(0, 1)))
        cs.append(F.pair(ch, starts=(2, 0)))
    for c1, c2 in [([], []), ([F.TOK["L"]], [F.TOK["F1"]]), ([F.TOK["A"]], [F.TOK["L"]]), ([F.TOK["F1"]], [F.TOK["F1"]])]:
        for order in F.orders(["A", "B", "C"], all_orders=not q):
            cs.append(F.line3(c1, c2, order=order))
        cs.append(F.join3(c1, c2))
        cs.append(F.fan3(c1, c2, order=("C", "A", "B")))
    # a user-style adapter that keeps its last result in an attribute named `data`, between other adapters
    for ch in ([["K"]], [F.TOK["S"], ["K"], F.TOK["S"]], [F.TOK["L"], ["K"]], [["K"], F.TOK["F1"]]):
        cs.append(F.pair(ch))
        cs.append(F.pair(ch, order=("B", "A")))
    # components with their own clock (implement ITimeComponent directly instead of deriving from the sdk's TimeComponent)
    for who in ((1,), (0,), (0, 1)):
        for ch in ([], [F.TOK["L"]], [F.TOK["F1"]]):
            c = F.pair(ch)
            for k in who:
                c["comps"][k]["own_clock"] = True
            cs.append(c)
    for who in ((2,), (0, 2), (1,)):
        c = F.line3([], [F.TOK["L"]], order=("C", "A", "B"))
        for k in who:
            c["comps"][k]["own_clock"] = True
        cs.append(c)
    # leaf consumers that declare themselves FINISHED before the end time (they must not be updated again, the run still ends)
    for fin in (1, 2, 3.5):
        for order in (("A", "B"), ("B", "A")):
            c = F.pair([], order=order)
            c["comps"][1]["finish_at"] = fin
            cs.append(c)
        c = F.pair([F.TOK["L"]], starts=(0, 1))
        c["comps"][1]["finish_at"] = fin
        cs.append(c)
        for order in (("A", "B", "C"), ("C", "B", "A"), ("B", "C", "A")):
            c = F.fan3([], [F.TOK["F1"]], order=order)
            c["comps"][2]["finish_at"] = fin
            cs.append(c)
            c = F.line3([], [], order=order)
            c["comps"][2]["finish_at"] = fin
            cs.append(c)
    for order in F.orders(["A", "P", "B"], all_orders=not q):
        cs.append(F.viaP([], [], order=order, menu=(1, 2)))
        cs.append(F.viaP([F.TOK["L"]], [F.TOK["F1"]], order=order, menu=(1, 2)))
    cs.append(F.viaP2([], [], []))
    cs.append(F.viaP2([], [F.TOK["F1"]], []))
    cs.append(F.viaPdup([], [F.TOK["F1"]], []))
    cs.append(F.viaPdup([], [F.TOK["F1"]], [], order=("B", "P", "A")))
    # fan-out behind a shared adapter with further adapters on the later branch (every one of them must be finalized once)
    for order in (("A", "B", "C"), ("C", "B", "A")):
        cs.append(F.fan3trunk([F.TOK["S"]], [], [F.TOK["S"], F.TOK["L"]], order=order))
        cs.append(F.fan3trunk([F.TOK["S"], F.TOK["S"]], [F.TOK["L"]], [F.TOK["F1"], F.TOK["S"]], order=order))
    cs.append(F.viaPP([], [], []))
    cs.append(F.diamondP())
    for mat in ([["F", 4]], [["F", 2], ["F", 2]], [["U"]]):
        cs.append(F.ring(2, {1: mat}, menu=(1, 2)))
        cs.append(F.ring(2, {0: mat}, menu=(1, 2), order=("B", "A")))
    cs.append(F.ring(3, {2: [["F", 6]]}, menu=(1, 2)))
    cs.append(F.ring(3, {1: [["U"]]}, menu=(1, 2), tail=True))
    if fixed:
        out = []
        lists = [[1], [2], [3], [1, 2], [2, 3], [3, 1]] if not q else [[1], [2], [1, 2], [3, 1]]
        for c in cs:
            tcs = [x for x in c["comps"] if x["kind"] == "T"]
            mx = max(c["comps"][0]["menu"]) if tcs else 1
            pool = [l for l in lists if max(l) <= mx]
            for k, combo in enumerate(itertools.product(pool, repeat=len(tcs))):
                if len(tcs) > 2 and k % (3 if q else 1):
                    continue
                c2 = dict(c, comps=[dict(x) for x in c["comps"]])
                for x, fx in zip([x for x in c2["comps"] if x["kind"] == "T"], combo):
                    x["fixed"] = list(fx)
                out.append(c2)
        return out
    return cs


def cases(tier):
    q = tier == "quick"
    cs = []
    # choice mode: three end times per family (before the first step boundary, on a common multiple, off every grid)
    for c in base_cfgs(tier, False):
        for end in ((-1, 0, 0.5, 1, 2, 3.5, 4.5, 6, 7.5, 9) if not q else (-1, 0, 0.5, 2, 3.5, 4.5, 6)):
            cs.append(dict(c, end=end))
    # fixed-sequence mode: the full end-time lattice
    ends = [x / 2 for x in range(-2, 15 if q else 25)]
    for c in base_cfgs(tier, True):
        for end in ends:
            cs.append(dict(c, end=end))
    # the same at another time scale (one unit = 100 microseconds): end times within a millisecond of a component's time
    for c in base_cfgs(tier, False)[::7]:
        for end in (0.5, 2, 3.5):
            cs.append(dict(c, end=end, unit_us=100))
    # long runs (hundreds of updates, steps from seconds to weeks)
    for c in base_cfgs(tier, False)[:: (6 if q else 2)]:
        tcs = [x for x in c["comps"] if x["kind"] == "T"]
        if any(x.get("finish_at") for x in tcs):
            continue
        lists = [[1, 2.5, 0.75], [2, 1, 1, 3.5], [0.5, 3]][: len(tcs)]
        if len(lists) < len(tcs):
            continue
        c2 = dict(c, comps=[dict(x) for x in c["comps"]], end=250.25, update_cap=5000)
        for x, fx in zip([x for x in c2["comps"] if x["kind"] == "T"], lists):
            x["fixed"] = fx
        if c2["family"].startswith("ring"):
            continue
        cs.append(c2)
    return cs


def tight_cap(c):
    """a valid run cannot make more updates than every component walking from its start to (just beyond) the end with its smallest step;
    a tight cap turns a driver that keeps updating into a 'hang' finding after a handful of states instead of a state explosion"""
    steps, starts = [], []
    for x in c["comps"]:
        if x["kind"] == "T":
            steps += [float(v) for v in (x.get("fixed") or x.get("menu") or [1])]
            starts.append(float(x.get("start", 0)))
    if not steps:
        return 50
    horizon = max(0.0, float(c["end"]) - min(starts))
    return int(len(starts) * ((horizon + max(steps)) / min(steps) + 3) + 5)


def run(tier, seed, agg):
    cs = cases(tier)
    cs = [c if "update_cap" in c else dict(c, update_cap=tight_cap(c)) for c in cs]
    cs += [dict(c, stateless=5 if tier == 'quick' else 7) for c in cs if not any(x.get('fixed') for x in c['comps']) and c['end'] in (3.5, 6)]
    acheck.run_cases(cs, CLAUSES, agg, judge, seed)
    from core.pool import pmap

    for r in pmap(run_lib, lib_cases(tier), chunksize=4):
        agg.add(r)
    for r in pmap(run_history, history_cases(tier), chunksize=8):
        agg.add(r)
    import os
    import shutil

    shutil.rmtree(WORK_ROOT, ignore_errors=True)
    return dict(
        level="model_checking",
        rule="explicit-state BFS over the real Composition.run for 7 (quick) / 10 (thorough) end times per family (step lengths are environment choices) plus fixed cyclic step lists crossed with the full half-hour "
        "end-time lattice (incl. end <= start); life-cycle automaton per component and finalize counter per adapter are part of the state; update cap turns a hang into a violation (also a driver that spins without updating anybody: reads of the components' time are counted). "
        "The library's own components (CsvReader with 1-4 rows, CallbackGenerator, DebugConsumer, DebugPushConsumer, CsvWriter, an extra clock) in all small combinations x end times x both listing orders, same oracle on the recorded update history. Pre-run histories: connect() refused 0-2 times for an unconnected input, the missing link created afterwards directly or through 1-2 new adapters "
        "(pass-through, LinearTime, NextTime, AvgOverTime, DelayFixed) from the same or another output, connect() called separately or by run(): life-cycle word of each component matches I C+ V U* F and every adapter is finalized exactly once",
        bound=dict(end_times="-1 .. 7 h" if tier == "quick" else "-1 .. 12 h (half-hour lattice)", step_menu="{1,2,3}/{1,2}", update_cap=400),
        assumptions=["only leaf consumers declare themselves FINISHED early (a producer that finishes while a consumer still needs it is not a valid composition)", "valid compositions only (acyclic or delay-resolved rings)"],
    )


def run_lib(case):
    """the library's own components (CSV reader/writer, generators, debug consumers, time trigger) in small compositions: same oracle
    (run returns, times strictly increase, nobody is updated after having finished or after everybody reached the end, everything finalized)"""
    import os
    import shutil
    from datetime import timedelta

    from core.common import T0, fm
    from core.runner import viol

    day = timedelta(days=1)
    work = os.path.join(WORK_ROOT, f"{os.getpid()}")
    os.makedirs(work, exist_ok=True)
    res = dict(n=1, states=0, transitions=0, traces=1, nontrivial=1, counters={"library_component_runs": 1}, violations=[])
    try:
        hist = []
        comps = {}

        def watch(name, c):
            comps[name] = c
            inner = c._update

            def upd():
                before, sb = getattr(c, "_time", None), c.status
                inner()
                hist.append((name, before, getattr(c, "_time", None), sb.name, c.status.name))

            c._update = upd
            return c

        kind, n = case["prod"]
        if kind == "csv":
            path = os.path.join(work, "in.csv")
            with open(path, "w", encoding="utf8") as f:
                f.write("T;X\n")
                for k in range(n):
                    f.write(f"{(T0 + k * day).isoformat()};{float(k)}\n")
            prod = watch("P", fm.components.CsvReader(path, time_column="T", outputs={"X": ""}))
            pout = "X"
        else:
            prod = watch("P", fm.components.CallbackGenerator(callbacks={"X": (lambda t: float(t.day), fm.Info(time=None, grid=fm.NoGrid()))}, start=T0 + case.get("pstart", 0) * day, step=n * day))
            pout = "X"
        clock = watch("K", fm.components.CallbackGenerator(callbacks={"Out": (lambda t: float(t.day), fm.Info(time=None, grid=fm.NoGrid()))}, start=T0, step=case["kstep"] * day)) if case.get("kstep") else None
        ck = case["cons"]
        ins = {"X": fm.Info(time=None, grid=fm.NoGrid(), units=None)}
        if clock is not None:
            ins["Clock"] = fm.Info(time=None, grid=fm.NoGrid(), units=None)
        if ck[0] == "monthly":
            # the library's CallbackComponent on a calendar step (relativedelta), started at a month end
            from dateutil.relativedelta import relativedelta

            cons = watch("C", fm.components.CallbackComponent(inputs=ins, outputs={}, callback=lambda inp, t: {}, start=T0 + ck[1] * day, step=relativedelta(months=1)))
        elif ck[0] == "push":
            cons = watch("C", fm.components.DebugPushConsumer(inputs=ins))
        elif ck[0] == "debug":
            cons = watch("C", fm.components.DebugConsumer(inputs=ins, start=T0, step=ck[1] * day))
        else:
            cons = watch("C", fm.components.CsvWriter(path=os.path.join(work, "out.csv"), inputs=list(ins), time_column="T", separator=";", start=T0, step=ck[1] * day))
        listed = [c for c in (prod, clock, cons) if c is not None]
        if case["order"] == "rev":
            listed.reverse()
        comp = fm.Composition(listed, print_log=False, log_level=50)
        if ck[0] == "monthly":
            prod.outputs[pout] >> fm.adapters.LinearTime() >> cons.inputs["X"]
        else:
            prod.outputs[pout] >> cons.inputs["X"]
        if clock is not None:
            clock.outputs["Out"] >> cons.inputs["Clock"]
        end = T0 + case["end"] * day
        bad = []
        try:
            comp.run(start_time=T0, end_time=end)
        except Exception as e:  # noqa
            bad.append(("run_raised:" + type(e).__name__, f"{type(e).__name__}: {str(e)[:120]}"))
        else:
            done = {}
            for i, (name, before, after, sb, sa) in enumerate(hist):
                if before is not None and after is not None and not after > before:
                    bad.append(("time_not_increasing", f"update #{i} of {name}: {before} -> {after} (status {sb} -> {sa})"))
                if sb == "FINISHED" or done.get(name):
                    bad.append(("updated_after_finished", f"update #{i} of {name}"))
                if sa == "FINISHED":
                    done[name] = True
            for name, c in comps.items():
                if c.status != fm.ComponentStatus.FINALIZED:
                    bad.append(("final_status", f"{name}: {c.status.name}"))
                if isinstance(c, fm.ITimeComponent) and c.time < end and not done.get(name):
                    bad.append(("end_not_reached", f"{name} at {c.time} < {end}"))
            res["states"] = res["transitions"] = len(hist)
        for clause, detail in bad[:3]:
            fp = dict(kind="library_components", clause=clause, prod=case["prod"][0], cons=case["cons"][0])
            if case["prod"][0] == "csv" and case["prod"][1] == 1:
                fp = dict(kind="library_components", clause=clause, prod="csv", rows=1)
            res["violations"].append(viol(fp, f"{case}: {clause}: {detail}", dict(case, lib=True)))
    finally:
        shutil.rmtree(work, ignore_errors=True)
    res["sample"] = dict(case)
    return res


def run_history(case):
    """user histories before the run: connect() refused because an input is still unconnected (once or twice), the missing link created
    afterwards (directly or through new adapters), connect() called separately or not; then run(end). Life-cycle language of every
    component and exactly-once finalisation of every adapter that is on a link - including the ones created after a refused connect."""
    import re
    from datetime import timedelta

    from core.common import T0, fm
    from core.runner import viol

    day = timedelta(days=1)
    res = dict(n=1, states=0, transitions=0, traces=1, nontrivial=1, counters={"pre_run_histories": 1}, violations=[])
    calls = {}
    fin = {}

    def watch(name, c):
        calls[name] = []
        for m, tag in (("_initialize", "I"), ("_connect", "C"), ("_validate", "V"), ("_update", "U"), ("_finalize", "F")):
            inner = getattr(c, m)

            def wrapped(*a, _inner=inner, _tag=tag, **k):
                calls[name].append(_tag)
                return _inner(*a, **k)

            setattr(c, m, wrapped)
        return c

    def ada(kind):
        a = {"S": lambda: fm.adapters.Scale(1.0), "L": fm.adapters.LinearTime, "N": fm.adapters.NextTime, "A": fm.adapters.AvgOverTime, "D": lambda: fm.adapters.DelayFixed(delay=day)}[kind]()
        key = f"{kind}{len(fin)}"
        fin[key] = 0
        inner = a.finalize

        def finalize(_inner=inner, _key=key):
            fin[_key] += 1
            return _inner()

        a.finalize = finalize
        return a

    def chain(out, kinds, inp):
        cur = out
        for k in kinds:
            cur = cur >> ada(k)
        cur >> inp

    info = lambda: fm.Info(time=None, grid=fm.NoGrid(), units=None)  # noqa
    oinfo = lambda: fm.Info(time=None, grid=fm.NoGrid(), units="m")  # noqa
    # built before the composition exists: components are initialized by the composition, wrappers have to be in place
    prod = watch("P", fm.components.CallbackGenerator(callbacks={"X": (lambda t: float(t.day), oinfo()), "Y": (lambda t: 2.0 * t.day, oinfo())}, start=T0, step=case["pstep"] * day))
    cons = watch("C", fm.components.DebugConsumer(inputs={"In1": info(), "In2": info()}, start=T0, step=case["cstep"] * day))
    listed = [prod, cons] if case["order"] == "id" else [cons, prod]
    comp = fm.Composition(listed, print_log=False, log_level=50)
    chain(prod.outputs["X"], case["ch1"], cons.inputs["In1"])
    bad = []
    end = T0 + case["end"] * day
    try:
        for k in range(case["refused"]):
            try:
                comp.connect(T0)
                bad.append(("unconnected_input_accepted", f"connect #{k}"))
            except fm.FinamConnectError:
                pass
        chain(prod.outputs[case["src2"]], case["ch2"], cons.inputs["In2"])
        if case["separate_connect"]:
            comp.connect(T0)
        comp.run(start_time=T0, end_time=end)
    except Exception as e:  # noqa
        bad.append(("run_raised:" + type(e).__name__, f"{type(e).__name__}: {str(e)[:120]}"))
    else:
        for name, c in (("P", prod), ("C", cons)):
            word = "".join(calls[name])
            if not re.fullmatch(r"IC+VU*F", word):
                bad.append(("life_cycle_language", f"{name}: {word}"))
            if c.status != fm.ComponentStatus.FINALIZED:
                bad.append(("final_status", f"{name}: {c.status.name}"))
            if c.time < end:
                bad.append(("end_not_reached", f"{name} at {c.time} < {end}"))
        for key, n in fin.items():
            if n != 1:
                bad.append(("adapter_finalize_count", f"adapter {key} finalized {n} times"))
        res["states"] = res["transitions"] = sum(len(v) for v in calls.values())
    for clause, detail in bad[:3]:
        res["violations"].append(viol(dict(kind="pre_run_history", clause=clause.split(":")[0], error=clause.split(":")[1] if ":" in clause else None), f"{case}: {clause}: {detail}", dict(case, history=True)))
    res["sample"] = dict(case)
    return res


def history_cases(tier):
    q = tier == "quick"
    out = []
    chains = [[], ["S"], ["L"], ["N"], ["A"], ["D"], ["S", "S"], ["S", "L"], ["D", "S"]] + ([] if q else [["L", "S"], ["S", "D"], ["N", "S"], ["S", "S", "S"]])
    for ch1 in chains[: (4 if q else 9)]:
        for ch2 in chains:
            for refused in (0, 1, 2):
                for sep in (False, True):
                    for src2 in ("Y", "X"):
                        for order in ("id", "rev"):
                            for steps in ((1, 1), (1, 2), (2, 1)) if not q else ((1, 2),):
                                for end in (2, 5) if not q else (4,):
                                    out.append(dict(history=True, ch1=ch1, ch2=ch2, refused=refused, separate_connect=sep, src2=src2, order=order, pstep=steps[0], cstep=steps[1], end=end))
    return out


def lib_cases(tier):
    out = []
    for prod in (("csv", 1), ("csv", 2), ("csv", 4), ("gen", 1), ("gen", 2), ("gen", 3)):
        for cons in (("push",), ("debug", 1), ("debug", 2), ("writer", 1)):
            for kstep in (None, 1, 2):
                for end in (1, 3, 4, 6) if tier == "quick" else (0, 1, 2, 3, 4, 5, 6, 9):
                    for order in ("id", "rev"):
                        # a pulling consumer needs data up to its own time: a file that ends earlier is not a valid composition for it
                        if prod[0] == "csv" and cons[0] != "push" and -(-end // cons[1]) * cons[1] > prod[1] - 1:
                            continue
                        if cons[0] == "push" and kstep is None and prod[0] == "csv" and end > prod[1] - 1:
                            continue  # nothing keeps the run going beyond the file: the reader finishes, fine, but covered by the clocked variant
                        out.append(dict(lib=True, prod=list(prod), cons=list(cons), kstep=kstep, end=end, order=order))
    for startday in (0, 27, 28, 29, 30):
        for pstep in (1, 3):
            for order in ("id", "rev"):
                out.append(dict(lib=True, prod=["gen", pstep], cons=["monthly", startday], kstep=None, end=130, order=order))
    return out


def replay(case):
    if case.get("history"):
        return run_history(case)["violations"]
    if case.get("lib"):
        return run_lib(case)["violations"]
    return acheck.replay_case(case, CLAUSES, judge)
