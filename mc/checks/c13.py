"""C13 - delay adapters deliver exactly the source's data for the shifted time (engine C data path; scheduler clause via C02's monitors)."""
import itertools

from harness import acheck, ccheck
from harness import families as F

A_CLAUSES = ("C13.", "C02.unjustified", "C01.lacking", "C01.pull_error")


def _rd(spec):
    from dateutil.relativedelta import relativedelta
    from datetime import timedelta

    return relativedelta(**spec["rd"]) if "rd" in spec else timedelta(**spec["td"])


def run_calendar(case):
    """DelayFixed with calendar delays (relativedelta months/years, documented as allowed) on the real composition: a daily source, a consumer
    with a calendar or day step; every delivered value must be the source's publication for the request shifted by every delay (each clamped at the start)"""
    from datetime import datetime, timedelta

    import finam as fm
    from core.runner import viol

    start = datetime(*case["start"])
    end = start + timedelta(days=case["days"])
    delays = [_rd(d) for d in case["delays"]]
    published, received = {}, []

    def gen(t):
        published[t] = float(t.toordinal())
        return published[t]

    src_info = fm.Info(time=None, grid=fm.NoGrid())
    source = fm.components.CallbackGenerator(callbacks={"Out": (gen, src_info)}, start=start, step=timedelta(days=1))
    consumer = fm.components.DebugConsumer(inputs={"In": fm.Info(time=None, grid=fm.NoGrid())}, callbacks={"In": lambda _n, d, t: received.append((t, float(fm.data.get_magnitude(d).reshape(-1)[0])))}, start=start, step=_rd(case["step"]))
    comp = fm.Composition([source, consumer] if case["order"] == "PC" else [consumer, source], print_log=False, log_level=50)
    link = source.outputs["Out"]
    if case.get("scale"):
        link = link >> fm.adapters.Scale(1.0)
    for d in delays:
        link = link >> fm.adapters.DelayFixed(d)
    link >> consumer.inputs["In"]
    res = dict(n=1, states=0, transitions=0, traces=1, nontrivial=0, counters={"calendar_runs": 1}, violations=[])
    try:
        if case.get("shared"):
            # the user's Info objects live on: after this composition is connected, the SAME Info objects describe the slots of a second
            # composition that starts later (built, connected, optionally run first); the first composition's deliveries must not change
            comp.connect(start)
            res["counters"]["shared_info_runs"] = 1
            later = start + timedelta(days=20)
            src2 = fm.components.CallbackGenerator(callbacks={"Out": (lambda t: -1.0, src_info)}, start=later, step=timedelta(days=1))
            con2 = fm.components.DebugConsumer(inputs={"In": fm.Info(time=None, grid=fm.NoGrid())}, start=later, step=timedelta(days=3))
            comp2 = fm.Composition([src2, con2], print_log=False, log_level=50)
            src2.outputs["Out"] >> fm.adapters.DelayFixed(timedelta(days=2)) >> con2.inputs["In"]
            if case["shared"] == "info_run":
                comp2.run(end_time=later + timedelta(days=9))
            else:
                comp2.connect(later)
        comp.run(end_time=end)
    except Exception as e:  # noqa
        res["violations"].append(viol(dict(kind="calendar_delay", how="exception", error=type(e).__name__), f"calendar delays {case['delays']} step {case['step']} start {case['start']}: {type(e).__name__}: {str(e)[:150]}", dict(case, calendar=True)))
        return res
    wrong = []
    for t, value in received:
        shifted = t
        for d in reversed(delays):  # the adapter next to the consumer shifts first
            shifted = max(shifted - d, start)
        res["states"] += 1
        if shifted != t:
            res["nontrivial"] = 1
        if published.get(shifted) != value:
            wrong.append((t.isoformat(), shifted.isoformat(), datetime.fromordinal(int(value)).isoformat()))
    res["transitions"] = res["states"]
    if wrong or len(received) < 3:
        res["violations"].append(viol(dict(kind="calendar_delay", how="wrong_source_time" if wrong else "too_few_deliveries"), f"calendar delays {case['delays']} step {case['step']} start {case['start']}: (request, expected source time, delivered source time) {wrong[:3]} ({len(wrong)} of {len(received)})", dict(case, calendar=True)))
    res["sample"] = dict(case)
    return res


def calendar_cases(tier):
    q = tier == "quick"
    delays = [[dict(rd=dict(months=1))], [dict(rd=dict(months=2))], [dict(rd=dict(years=1))], [dict(rd=dict(months=1, days=3))], [dict(rd=dict(months=1)), dict(td=dict(days=2))], [dict(td=dict(days=2)), dict(rd=dict(months=1))],
              [dict(rd=dict(months=1)), dict(rd=dict(months=1))], [dict(td=dict(days=30))], [dict(rd=dict(weeks=2))]]
    steps = [dict(rd=dict(months=1)), dict(td=dict(days=11)), dict(rd=dict(days=45))] + ([] if q else [dict(rd=dict(months=2)), dict(td=dict(days=1))])
    starts = [(2001, 1, 1), (2004, 1, 31), (2003, 12, 15)] + ([] if q else [(2000, 2, 29), (2001, 3, 31)])
    out = [dict(calendar=True, start=list(st), days=300 if q else 500, delays=d, step=sp, order=o, scale=sc) for st in starts for d in delays for sp in steps for o in ("PC", "CP") for sc in ((False,) if q else (False, True))]
    # Info objects shared with a second, later composition (connected / run in between)
    out += [dict(calendar=True, start=list(st), days=60, delays=d, step=sp, order=o, scale=False, shared=sh) for st in starts[:2] for d in ([dict(td=dict(days=2))], [dict(rd=dict(months=1))], [dict(td=dict(days=2)), dict(td=dict(days=3))])
            for sp in (dict(td=dict(days=5)), dict(td=dict(days=11))) for o in ("PC", "CP") for sh in ("info", "info_run")]
    return out


def replay(case):
    if case.get("calendar"):
        return run_calendar(case)["violations"]
    if "path" in case and "family" in case.get("cfg", {}):
        return acheck.replay_case(case, A_CLAUSES, acheck.judge_valid)
    return ccheck.replay(case)


def a_cases(tier):
    """scheduler clause: the same delay chains on a link of a real composition (what the driver assumes = what is requested)"""
    q = tier == "quick"
    chains = [[["F", 1]], [["F", 0.5], ["F", 1.5]], [["F", 1], ["S", 2], ["F", 1]], [["F", 0.5], ["F", 0.5], ["F", 1]], [["P", 1, 0]], [["P", 2, 0.5]], [["P", 1, 0], ["F", 1]], [["F", 1], ["P", 2, 0]], [["U"]], [["F", 1], ["U"]], [["U"], ["F", 1]]]
    cs = []
    for ch in chains:
        for pi in (True, False):
            cs.append(F.pair(ch, end=5 if q else 8, pull_initial=pi))
        cs.append(F.pair(ch, end=5 if q else 8, order=("B", "A"), starts=(0, 1)))
        cs.append(F.pair(ch, end=5 if q else 8, starts=(2, 0)))
    for mat in ([["F", 2], ["F", 2]], [["F", 1], ["S", 2], ["F", 3]], [["F", 4]]):
        cs.append(F.ring(2, {1: mat}, menu=(1, 2), end=6))
    out = list(cs)
    out += [dict(c, stateless=5 if q else 7) for c in cs]
    return out

F_ = [["F", d] for d in (0, 0.5, 1, 2.5, 4)]
P_ = [["P", n, x] for n in (1, 2, 3) for x in (0, 0.5)]
U_ = [["U"]]
S_ = [["S", 2]]


def has_u(ch):
    return any(t[0] == "U" for t in ch)


def cfgs(tier):
    q = tier == "quick"
    chains = [[t] for t in F_ + P_ + U_]
    rep = [["F", 0.5], ["F", 2.5], ["P", 1, 0], ["P", 2, 0.5], ["U"], ["S", 2]]
    for a, b in itertools.product(rep, repeat=2):
        if a[0] == "S" and b[0] == "S":
            continue
        chains.append([a, b])
    rep3 = [["F", 1], ["P", 1, 0], ["U"], ["S", 2]] if q else [["F", 1], ["F", 2.5], ["P", 1, 0], ["P", 2, 0.5], ["U"], ["S", 2]]
    for combo in itertools.product(rep3, repeat=3):
        if sum(1 for t in combo if t[0] == "S") >= 2:
            continue
        chains.append(list(combo))
    out = []
    for ch in chains:
        dmax = sum(t[1] for t in ch if t[0] == "F") + sum(t[2] for t in ch if t[0] == "P")
        only_f = all(t[0] in "FS" for t in ch)
        n = len(ch)
        depth = None if only_f else ((6 if n == 1 else 5 if n == 2 else 4) + (0 if q else 2))
        out.append(dict(consumers=[ch], window=2.5 if q else 3, dmax=dmax, gaps=(1, 2, 3) if n < 3 else (1, 2), beyond=1.5 if has_u(ch) else 0.5, max_depth=depth, value_scale=2 ** sum(1 for t in ch if t[0] == "S") if False else 1))
    # other time scales and masked payloads on the single adapters
    for ch in [[t] for t in ([["F", 0.5], ["F", 2.5], ["P", 1, 0], ["P", 2, 0.5], ["U"]])]:
        dmax = sum(t[1] for t in ch if t[0] == "F") + sum(t[2] for t in ch if t[0] == "P")
        for unit in (2, 7 * 86400 * 10**6):
            out.append(dict(consumers=[ch], window=2, dmax=dmax, gaps=(1, 2), beyond=1.5 if has_u(ch) else 0.5, max_depth=5, unit_us=unit))
        out.append(dict(consumers=[ch], window=2, dmax=dmax, gaps=(1, 2), beyond=1.5 if has_u(ch) else 0.5, max_depth=5, payload="masked"))
    # requests that run ahead of the source by up to 1.5 h: a delay-to-pull adapter then asks its source for a previous request time the
    # source has not reached yet, the pull is refused and repeated later - a refused request is not a "previous request"
    for ch in [[t] for t in P_]:
        out.append(dict(consumers=[ch], window=2, dmax=ch[0][2], gaps=(1, 2), beyond=1.5, max_depth=(5 if ch[0][1] == 1 else 4) + (0 if q else 1)))
    # a direct consumer next to a delayed one (the delayed one keeps the output's history alive)
    for ch in ([["F", 2.5]], [["P", 2, 0]], [["U"]]):
        out.append(dict(consumers=[ch, []], window=2.5, dmax=3, gaps=(1, 2), beyond=1.5 if has_u(ch) else 0.5, max_depth=6 if q else 8))
    return out


def run(tier, seed, agg):
    ccheck.run_cases(cfgs(tier), agg, seed)
    acheck.run_cases(a_cases(tier), A_CLAUSES, agg, acheck.judge_valid, seed)
    from core.pool import pmap

    for r in pmap(run_calendar, calendar_cases(tier), chunksize=2):
        agg.add(r)
    return dict(
        level="model_checking",
        rule="explicit-state BFS over all interleavings of push(gap) and pull(t) (non-decreasing t on the half-hour lattice incl. repeated times and, behind DelayToPush, requests beyond the newest publication) "
        "for every chain of 1-3 delay adapters from DelayFixed(d in {0,.5,1,2.5,4}), DelayToPull(n in {1,2,3}, extra in {0,.5}), DelayToPush mixed with Scale (all singles, all pairs of a representative set, all triples of a smaller set); "
        "chains of fixed delays run to a fixpoint, chains with history-dependent adapters to the stated depth; on every pull the time argument reaching the source output and the delivered value must equal the reference "
        "(max(t-d,start), n-th previous request - extra clamped at start, min(t, newest publication); composition of the maps, so delays add). "
        "Calendar delays: DelayFixed with relativedelta months/years/weeks (single, mixed with day delays, chained) under a daily source and consumers with month / 11-day / 45-day steps over 300-500 days from several start dates (month ends, leap years), both listing orders: every delivery is the publication for the calendar-shifted request",
        bound=dict(lag_window_h=2.5 if tier == "quick" else 3, depth="6/5/4 (chain length 1/2/3)" if tier == "quick" else "8/7/6", lattice_h=0.5),
        assumptions=["start time = declared time of the source output", "scheduler clause: the same chains on a link of a 2-component composition explored with engine A (snapshot BFS + stateless DFS); the driver must neither update the consumer while the reference's shifted time is unpublished nor advance the producer without need"],
    )
