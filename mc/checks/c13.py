"""C13 - delay adapters deliver exactly the source's data for the shifted time (engine C data path; scheduler clause via C02's monitors)."""
import itertools

from harness import acheck, ccheck
from harness import families as F

A_CLAUSES = ("C13.", "C02.unjustified", "C01.lacking", "C01.pull_error")


def replay(case):
    if "path" in case and "family" in case.get("cfg", {}):
        return acheck.replay_case(case, A_CLAUSES, acheck.judge_valid)
    return ccheck.replay(case)


def a_cases(tier):
    """scheduler clause: the same delay chains on a link of a real composition (what the driver assumes = what is requested)"""
    q = tier == "quick"
    chains = [[["F", 1]], [["F", 0.5], ["F", 1.5]], [["F", 1], ["S", 2], ["F", 1]], [["F", 0.5], ["F", 0.5], ["F", 1]], [["P", 1, 0]], [["P", 2, 0.5]], [["P", 1, 0], ["F", 1]], [["F", 1], ["P", 2, 0]], [["U"]], [["F", 1], ["U"]], [["U"], ["F", 1]]]
    cs = []
    for ch in chains:
        for pi in (True, False):
            cs.append(F.pair(ch, end=5 if q else 8, pull_initial=pi))
        cs.append(F.pair(ch, end=5 if q else 8, order=("B", "A"), starts=(0, 1)))
        cs.append(F.pair(ch, end=5 if q else 8, starts=(2, 0)))
    for mat in ([["F", 2], ["F", 2]], [["F", 1], ["S", 2], ["F", 3]], [["F", 4]]):
        cs.append(F.ring(2, {1: mat}, menu=(1, 2), end=6))
    out = list(cs)
    out += [dict(c, stateless=5 if q else 7) for c in cs]
    return out

F_ = [["F", d] for d in (0, 0.5, 1, 2.5, 4)]
P_ = [["P", n, x] for n in (1, 2, 3) for x in (0, 0.5)]
U_ = [["U"]]
S_ = [["S", 2]]


def has_u(ch):
    return any(t[0] == "U" for t in ch)


def cfgs(tier):
    q = tier == "quick"
    chains = [[t] for t in F_ + P_ + U_]
    rep = [["F", 0.5], ["F", 2.5], ["P", 1, 0], ["P", 2, 0.5], ["U"], ["S", 2]]
    for a, b in itertools.product(rep, repeat=2):
        if a[0] == "S" and b[0] == "S":
            continue
        chains.append([a, b])
    rep3 = [["F", 1], ["P", 1, 0], ["U"], ["S", 2]] if q else [["F", 1], ["F", 2.5], ["P", 1, 0], ["P", 2, 0.5], ["U"], ["S", 2]]
    for combo in itertools.product(rep3, repeat=3):
        if sum(1 for t in combo if t[0] == "S") >= 2:
            continue
        chains.append(list(combo))
    out = []
    for ch in chains:
        dmax = sum(t[1] for t in ch if t[0] == "F") + sum(t[2] for t in ch if t[0] == "P")
        only_f = all(t[0] in "FS" for t in ch)
        n = len(ch)
        depth = None if only_f else ((6 if n == 1 else 5 if n == 2 else 4) + (0 if q else 2))
        out.append(dict(consumers=[ch], window=2.5 if q else 3, dmax=dmax, gaps=(1, 2, 3) if n < 3 else (1, 2), beyond=1.5 if has_u(ch) else 0.5, max_depth=depth, value_scale=2 ** sum(1 for t in ch if t[0] == "S") if False else 1))
    # other time scales and masked payloads on the single adapters
    for ch in [[t] for t in ([["F", 0.5], ["F", 2.5], ["P", 1, 0], ["P", 2, 0.5], ["U"]])]:
        dmax = sum(t[1] for t in ch if t[0] == "F") + sum(t[2] for t in ch if t[0] == "P")
        for unit in (2, 7 * 86400 * 10**6):
            out.append(dict(consumers=[ch], window=2, dmax=dmax, gaps=(1, 2), beyond=1.5 if has_u(ch) else 0.5, max_depth=5, unit_us=unit))
        out.append(dict(consumers=[ch], window=2, dmax=dmax, gaps=(1, 2), beyond=1.5 if has_u(ch) else 0.5, max_depth=5, payload="masked"))
    # a direct consumer next to a delayed one (the delayed one keeps the output's history alive)
    for ch in ([["F", 2.5]], [["P", 2, 0]], [["U"]]):
        out.append(dict(consumers=[ch, []], window=2.5, dmax=3, gaps=(1, 2), beyond=1.5 if has_u(ch) else 0.5, max_depth=6 if q else 8))
    return out


def run(tier, seed, agg):
    ccheck.run_cases(cfgs(tier), agg, seed)
    acheck.run_cases(a_cases(tier), A_CLAUSES, agg, acheck.judge_valid, seed)
    return dict(
        level="model_checking",
        rule="explicit-state BFS over all interleavings of push(gap) and pull(t) (non-decreasing t on the half-hour lattice incl. repeated times and, behind DelayToPush, requests beyond the newest publication) "
        "for every chain of 1-3 delay adapters from DelayFixed(d in {0,.5,1,2.5,4}), DelayToPull(n in {1,2,3}, extra in {0,.5}), DelayToPush mixed with Scale (all singles, all pairs of a representative set, all triples of a smaller set); "
        "chains of fixed delays run to a fixpoint, chains with history-dependent adapters to the stated depth; on every pull the time argument reaching the source output and the delivered value must equal the reference "
        "(max(t-d,start), n-th previous request - extra clamped at start, min(t, newest publication); composition of the maps, so delays add)",
        bound=dict(lag_window_h=2.5 if tier == "quick" else 3, depth="6/5/4 (chain length 1/2/3)" if tier == "quick" else "8/7/6", lattice_h=0.5),
        assumptions=["start time = declared time of the source output", "scheduler clause: the same chains on a link of a 2-component composition explored with engine A (snapshot BFS + stateless DFS); the driver must neither update the consumer while the reference's shifted time is unpublished nor advance the producer without need"],
    )
