"""C04 - unresolvable cycles are reported, delay-resolved cycles run (engine A)."""
import itertools
from fractions import Fraction as Fr

from core.pool import pmap
from core.runner import viol
from harness import acheck
from harness import families as F

CLAUSES = ("C01.", "C02.")
INF = Fr(10**6)
BUF = set("LNVTAM")


def link_delay(cfg, l):
    """(has_effective_delay_adapter, guaranteed delay in hours) of one link; only adapters downstream of every
    push-notified adapter take effect (a delay upstream of a buffer is pulled at push time)"""
    chain = l["chain"]
    last_buf = max([i for i, t in enumerate(chain) if t[0] in BUF], default=-1)
    eff = chain[last_buf + 1 :]
    has = any(t[0] in "FPU" for t in eff)
    total = Fr(0)
    dst = next(c for c in cfg["comps"] if c["name"] == l["dst"])
    for t in eff:
        if t[0] == "F":
            total += Fr(t[1])
        elif t[0] == "P":
            smallest = min(dst["fixed"] or dst["menu"]) if dst["kind"] == "T" else 0
            total += t[1] * Fr(smallest) + Fr(t[2] if len(t) > 2 else 0)
        elif t[0] == "U":
            total += INF
    return has, total


def cycles(cfg):
    names = [c["name"] for c in cfg["comps"]]
    adj = {n: [] for n in names}
    for li, l in enumerate(cfg["links"]):
        adj[l["src"]].append((l["dst"], li))
    out = []

    def dfs(start, node, path_links, visited):
        for nxt, li in adj[node]:
            if nxt == start:
                out.append(path_links + [li])
            elif nxt not in visited and names.index(nxt) > names.index(start):
                dfs(start, nxt, path_links + [li], visited | {nxt})

    for s in names:
        dfs(s, s, [], {s})
    return out


def classify(cfg):
    """'unbroken' if some cycle has no effective delay adapter, 'sufficient' if every cycle's delay >= sum of largest steps, else 'between'"""
    kinds = []
    comps = {c["name"]: c for c in cfg["comps"]}
    for cyc in cycles(cfg):
        has, tot, steps = False, Fr(0), Fr(0)
        for li in cyc:
            l = cfg["links"][li]
            h, d = link_delay(cfg, l)
            has, tot = has or h, tot + d
            c = comps[l["src"]]
            if c["kind"] == "T":
                steps += Fr(max(c["fixed"] or c["menu"]))
        kinds.append("unbroken" if not has else ("sufficient" if tot >= steps else "between"))
    if "unbroken" in kinds:
        return "unbroken"
    if all(k == "sufficient" for k in kinds):
        return "sufficient"
    return "between"


def late_producer_delay_before_buffer(cfg):
    """structural class of a known defect: producer starting later than the composition, with a fixed delay upstream of a push-notified adapter"""
    starts = {c["name"]: c.get("start", 0) for c in cfg["comps"] if c["kind"] == "T"}
    t0 = min(starts.values())
    for l in cfg["links"]:
        kinds = [t[0] for t in l["chain"]]
        if starts.get(l["src"], t0) > t0 and any(k == "F" and any(b in BUF for b in kinds[i + 1 :]) for i, k in enumerate(kinds)):
            return True
    return False


def exc_fp(cfg, outcome):
    fp = dict(got="exc:" + outcome[1])
    if len(outcome) > 4:
        fp.update(phase=outcome[3], why=outcome[4])
        if outcome[3] == "connect" and late_producer_delay_before_buffer(cfg):
            fp["structure"] = "late_producer_with_fixed_delay_upstream_of_push_based_adapter"
    return fp


def judge(cfg, res):
    cls = classify(cfg)
    out = []
    nonfinal = res.get("nonfinal", [])
    if cls == "unbroken":
        # every execution must end in the circular coupling error
        for outcome, path in nonfinal:
            if outcome[0] != "circular":
                fp = dict(got="hang") if outcome[0] == "hang" else exc_fp(cfg, outcome)
                out.append((dict(kind="wrong_outcome_for_unbroken_cycle", **fp), f"cycle without delay adapter ended with {outcome[:2]} instead of FinamCircularCouplingError", path))
        done = res["outcomes"].get("done", 0) if "outcomes" in res else 0
        if res.get("final_outcome", ("",))[0] == "done":
            done = 1
        if done:
            out.append((dict(kind="wrong_outcome_for_unbroken_cycle", got="completed"), "cycle without delay adapter ran to completion", []))
    else:
        for outcome, path in nonfinal:
            if outcome[0] == "circular" and cls == "between":
                continue
            fp = dict(got={"circular": "circular_error", "hang": "hang"}[outcome[0]]) if outcome[0] in ("circular", "hang") else exc_fp(cfg, outcome)
            out.append((dict(kind="wrong_outcome_for_delayed_cycle", delay=cls, **fp), f"cycle with {cls} delay ended with {outcome[:2]}: {outcome[2][:150] if len(outcome) > 2 else ''}", path))
    return out


def materials(total, q):
    """delay material for one link, total = sum of the largest steps on the ring"""
    t = total
    mats = {
        "none": [],
        "F=": [["F", t]],
        "F+": [["F", t + 1]],
        "F-": [["F", t - 0.5]],
        "Fhalf": [["F", 0.5]],
        "FF": [["F", t / 2], ["F", t / 2]],
        "FsF": [["F", t - 1], ["S", 2], ["F", 1]],
        "FFF": [["F", 1], ["F", t - 1.5], ["F", 0.5]],
        "P1": [["P", 1, 0]],
        "P2x": [["P", 2, 0.5]],
        "U": [["U"]],
        "F=L": [["F", t], ["L"]],
        "LF=": [["L"], ["F", t]],
        "UL": [["U"], ["L"]],
        "LU": [["L"], ["U"]],
        "L": [["L"]],
        "S": [["S", 2]],
    }
    if q:
        for k in ("FFF", "P2x", "Fhalf"):
            mats.pop(k)
    return mats


def cases(tier):
    q = tier == "quick"
    cs = []
    # 2-rings, choice mode, material on every subset of links
    mats = materials(4, q)
    for (k0, m0), (k1, m1) in itertools.product(mats.items(), repeat=2):
        if q and k0 not in ("none", "L", "S") and k1 not in ("none", "L", "S") and (k0, k1) not in (("F=", "P1"), ("U", "F-")):
            continue
        for order in (("A", "B"), ("B", "A")):
            cs.append(F.ring(2, {0: m0, 1: m1}, menu=(1, 2), end=6, order=order))
    for k1, m1 in mats.items():
        for starts in ((1, 0), (0, 2)):
            cs.append(F.ring(2, {1: m1}, menu=(1, 2), end=6, starts=starts))
        # pull-based component on the ring
        if F.chain_ok(m1, True):
            cs.append(F.ring(2, {0: m1}, menu=(1, 2), end=5, pnode=0))
        cs.append(F.ring(2, {1: m1}, menu=(1, 2), end=5, pnode=0, order=("P", "B", "A")))
    # delay-to-pull material that is sufficient by the n x smallest-step rule (fixed steps), puller with and without initial pull
    for steps, n in (([[1], [2]], 3), ([[1], [1]], 2), ([[2], [1]], 2), ([[1], [2]], 4)):
        for mat in ([["P", n, 0]], [["P", n - 1, 0], ["F", steps[0][0]]], [["P", n, 0.5]]):
            for pi in (True, False):
                for order in (("A", "B"), ("B", "A")):
                    cs.append(F.ring(2, {1: mat}, fixed=steps, menu=(1, 2), end=8, order=order, pull_initial_first=pi))
    # other time scales (one unit = 100 microseconds / one week) and consumers that start a fraction of a step later
    for unit in (100, 7 * 86400 * 10**6):
        for k1 in ("none", "F=", "F-", "FF", "U", "F=L"):
            cs.append(dict(F.ring(2, {1: mats[k1]}, menu=(1, 2), end=5), unit_us=unit))
    for k1 in ("F=", "F+", "FF", "FsF"):
        for starts in ((0, 0.5), (0, 1.5), (0.25, 0), (0, 2.75)):
            cs.append(F.ring(2, {1: mats[k1]}, menu=(1, 2), end=6, starts=starts))
            cs.append(F.ring(2, {0: mats[k1]}, menu=(1, 2), end=6, starts=starts, order=("B", "A")))
    # rings through a pull-based component that reaches its consumer over two parallel links with different delays (the ring is only
    # broken when BOTH parallel links carry a delay), slot declaration order = link order, both ways round
    par = [[], [["F", 1]], [["F", 3]], [["F", 4]], [["S", 2], ["F", 3]]]
    for ch0, ch1 in itertools.product(par, repeat=2):
        if ch0 and ch1 and ch0 != ch1:
            continue  # both links delayed differently: the pull-based component is asked twice for different times within one update - the open C01/C20 finding, not a C04 matter
        for two in (False, True):
            for pi in (True, False):
                cs.append(F.ringPdup(ch0, ch1, two_outputs=two, pull_initial=pi))
                cs.append(F.ringPdup(ch0, ch1, two_outputs=two, pull_initial=pi, order=("P", "A")))
            cs.append(F.ringPdup(ch0, ch1, two_outputs=two, with_b=True))
            cs.append(F.ringPdup(ch0, ch1, two_outputs=two, with_b=True, order=("B", "P", "A")))
    # 3-rings, choice mode
    mats3 = materials(6, q)
    for k, m in mats3.items():
        for pos in (0, 2):
            for order in (("A", "B", "C"), ("C", "B", "A"), ("B", "A", "C")) if not q else (("A", "B", "C"), ("C", "A", "B")):
                cs.append(F.ring(3, {pos: m}, menu=(1, 2), end=5, order=order))
        cs.append(F.ring(3, {1: m}, menu=(1, 2), end=5, chord=(0, 2, []), order=("C", "A", "B")))
        cs.append(F.ring(3, {0: m}, menu=(1, 2), end=5, chord=(0, 2, m), tail=True))
    cs.append(F.ring(3, {0: [["F", 3]], 1: [["F", 3]]}, menu=(1, 2), end=5))
    cs.append(F.ring(3, {0: [["F", 2]], 1: [["F", 2]], 2: [["F", 2]]}, menu=(1, 2), end=5))
    # larger rings: fixed-sequence mode, all listing orders (rotations + reversal for n=5)
    for n in ((4,) if q else (4, 5)):
        steps_sets = [[[1]] * n, [[1, 2]] * n, [[2], [1], [3], [1], [2]][:n]]
        for steps in steps_sets:
            tot = sum(max(s) for s in steps)
            for k, m in materials(tot, True).items():
                names = [chr(65 + i) for i in range(n)]
                orders = list(itertools.permutations(names)) if n == 4 and not q else [names[i:] + names[:i] for i in range(n)] + [names[::-1]]
                for order in orders:
                    cs.append(F.ring(n, {n - 2: m}, fixed=steps, menu=(1, 2, 3), end=8, order=order))
    return cs


def with_stateless(cs, tier):
    """every configuration is explored twice: snapshot BFS (deep horizon, state merging) and stateless DFS (each execution one
    uninterrupted run() call, first choice points enumerated exhaustively) - the latter sees driver state carried across iterations"""
    out = list(cs)
    for c in cs:
        if any(x.get("fixed") for x in c["comps"]):
            continue
        m = max(len(x.get("menu", [1])) for x in c["comps"] if x["kind"] == "T")
        d = (5 if m >= 3 else 7) + (0 if tier == "quick" else 2)
        out.append(dict(c, stateless=d))
    return out


def connect_ring_shapes():
    """cycles of the connect phase: rings in which every component needs something from its predecessor before it can serve its successor
    (initial data computed from the pulled input, or output metadata copied from the input), plus rings that one constant source breaks"""
    outs = (("decl", "pull:i"), ("from_in:i", "const"), ("from_in:i", "pull:i"), ("arg", "pull:i"), ("decl", "const"))
    ins = ("decl", "arg")
    for n in (2, 3):
        names = [chr(65 + k) for k in range(n)]
        for om in itertools.product(outs, repeat=n):
            for im in itertools.product(ins, repeat=n) if n == 2 else (("decl",) * n, ("arg",) * n):
                specs = [(names[k], [("i", im[k])], [("o",) + om[k]], 0) for k in range(n)]
                links = [((names[k], "o"), (names[(k + 1) % n], "i")) for k in range(n)]
                yield specs, links


def run_connect_case(case):
    from checks import c06

    res = dict(n=0, states=0, transitions=0, traces=0, nontrivial=0, counters={}, violations=[])
    for specs, links in case["shapes"]:
        specs = [(s[0], [tuple(x) for x in s[1]], [tuple(x) for x in s[2]], s[3]) for s in specs]
        links = [((l[0][0], l[0][1]), (l[1][0], l[1][1])) for l in links]
        names = [s[0] for s in specs]
        orders = [case["order"]] if case.get("order") else list(itertools.permutations(names))
        for order in orders:
            bad, out, stuck, ncalls = c06.judge(specs, links, list(order), list(range(len(links))))
            res["n"] += 1
            res["traces"] += 1
            res["transitions"] += ncalls
            res["states"] += ncalls + 1
            res["nontrivial"] += 1 if stuck else 0
            res["counters"]["connect_ring_" + out[0]] = res["counters"].get("connect_ring_" + out[0], 0) + 1
            for clause, detail in bad:
                if clause.startswith(("per_call_status", "initial_", "input_info", "status_after")):
                    continue  # C06's business
                res["violations"].append(viol(dict(kind="connect_phase_cycle", clause=clause.split(":")[0]), f"connect-phase ring specs={specs} order={order}: {clause}: {detail}", dict(connect=True, shapes=[[specs, links]], order=list(order))))
    res["sample"] = dict(connect_ring=case["shapes"][0][0])
    return res


def run(tier, seed, agg):
    cs = with_stateless(cases(tier), tier)
    acheck.run_cases(cs, CLAUSES, agg, judge, seed)
    shapes = list(connect_ring_shapes())
    for r in pmap(run_connect_case, [dict(shapes=shapes[i : i + 20]) for i in range(0, len(shapes), 20)]):
        agg.add(r)
    cls = {}
    for c in cs:
        k = classify(c)
        cls[k] = cls.get(k, 0) + 1
    return dict(
        level="model_checking",
        rule="rings of 2-3 time components (choice mode: every step is an environment choice from {1,2}) and 4-5 (fixed cyclic step lists), optional chord/tail/pull-based node, delay material of 17 kinds "
        "(none, exact, +1, -0.5, split in 2/3 with pass-through in between, DelayToPull, DelayToPush, up-/downstream of LinearTime) on every link subset (2-rings) or position, all/rotated listing orders. "
        "Connect-phase cycles: rings of 2-3 components whose initial data / output metadata depend on the predecessor (all mode combinations, all listing orders) must end in the circular-coupling error naming exactly the stuck components (call cap = hang). "
        "Verdict from an independent cycle analysis: unbroken cycle => circular error; combined effective delay >= sum of largest steps => completes with C01/C02 monitors green; otherwise either",
        bound=dict(ring_sizes="2-4" if tier == "quick" else "2-5", horizon_h="5-8"),
        extra=dict(config_classes=cls),
        assumptions=["a delay adapter located upstream of a push-notified adapter does not take effect on the dependency (it is pulled at push time) and is not counted as delay material",
                     "DelayToPull counted as n x smallest step of the puller + extra; DelayToPush counted as sufficient"],
    )


def replay(case):
    if case.get("connect"):
        return run_connect_case(case)["violations"]
    return acheck.replay_case(case, CLAUSES, judge)
