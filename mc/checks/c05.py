"""C05 - the coupling outcome is independent of listing and linking order (engine A, fixed-sequence mode, differential)."""
import itertools
import json

from core.pool import pmap
from core.runner import viol
from harness import families as F
from harness import sched

from checks.c04 import classify

SIGMA = ["S", "L", "N", "T", "A", "M", "F1", "Fh", "P1"]  # no DelayToPush (push-time dependent)


def perms(cfg, full):
    names = [c["name"] for c in cfg["comps"]]
    nl = len(cfg["links"])
    orders = list(itertools.permutations(names))
    lorders = list(itertools.permutations(range(nl))) if nl <= (4 if full else 3) else [tuple(range(nl)), tuple(reversed(range(nl)))] + [tuple(range(k, nl)) + tuple(range(k)) for k in range(1, nl)]
    return orders, lorders


def structure(cfg):
    """structural class of a known defect (C01 finding): DelayToPull on a link into a pull-based component that is pulled twice by one consumer"""
    kinds = {c["name"]: c["kind"] for c in cfg["comps"]}
    for l in cfg["links"]:
        if kinds[l["dst"]] == "P" and any(t[0] == "P" for t in l["chain"]):
            outs = [(m["src"], m["dst"]) for m in cfg["links"] if m["src"] == l["dst"]]
            if len(outs) != len(set(outs)):
                return "delay_to_pull_into_pull_based_component_read_twice_by_one_consumer"
    return None


def run_case(case):
    cfg, full = case["cfg"], case.get("full", False)
    res = dict(n=0, traces=0, states=0, transitions=0, nontrivial=0, counters={}, violations=[])
    if "order" in case:  # replay of one permutation against the identity order
        pairs = [(tuple(case["order"]), tuple(case["link_order"]))]
    else:
        orders, lorders = perms(cfg, full)
        pairs = [(o, lo) for o in orders for lo in lorders]
    names = [c["name"] for c in cfg["comps"]]
    base, r0 = sched.signature(dict(cfg, order=names, link_order=list(range(len(cfg["links"])))))
    bj = json.dumps(base, sort_keys=True)
    ties = r0.stats.get("updates_with_time_ties", 0)
    sigs = {bj}
    for o, lo in pairs:
        sig, r = sched.signature(dict(cfg, order=list(o), link_order=list(lo)))
        res["n"] += 1
        res["traces"] += 1
        res["states"] += r.stats.get("updates", 0) + 1
        res["transitions"] += r.stats.get("updates", 0)
        sj = json.dumps(sig, sort_keys=True)
        sigs.add(sj)
        if sj != bj:
            what = [k for k in ("outcome", "infos", "times", "series") if sig[k] != base[k]]
            fp = dict(kind="outcome_depends_on_order", differs=what[0], base=base["outcome"][-1], other=sig["outcome"][-1])
            fp["config"] = cfg["family"] + ":" + "|".join(sched.tok_class(l["chain"]) for l in cfg["links"])
            res["violations"].append(viol(fp, f"family {cfg['family']} links {[(l['src'], l['dst'], l['chain']) for l in cfg['links']]}: listing {o} / link order {lo} gives {sig['outcome']} {what} vs identity order {base['outcome']}", dict(cfg=cfg, order=list(o), link_order=list(lo))))
    if ties:
        res["nontrivial"] = 1
    res["counters"]["configs_with_ties"] = 1 if ties else 0
    res["counters"]["distinct_signatures_max"] = 0
    res["counters"]["outcome_" + base["outcome"][-1]] = 1
    res["counters"]["configs_with_several_signatures"] = 1 if len(sigs) > 1 else 0
    res["sample"] = dict(family=cfg["family"], links=cfg["links"], steps=[c.get("fixed") for c in cfg["comps"]], permutations=len(pairs), distinct_signatures=len(sigs))
    return res


def replay(case):
    return run_case(case)["violations"]


def with_steps(cfg, steps):
    c2 = dict(cfg, comps=[dict(x) for x in cfg["comps"]])
    for x, fx in zip([x for x in c2["comps"] if x["kind"] == "T"], steps):
        x["fixed"] = list(fx)
    return c2


def cases(tier):
    q = tier == "quick"
    cs = []
    steplists2 = [([1], [1]), ([1], [3]), ([3], [1]), ([2], [3]), ([1, 2], [2, 1]), ([2], [2])]
    for ch in F.chains(SIGMA, 1 if q else 2):
        for st in steplists2 if not q else steplists2[:5]:
            cs.append(with_steps(F.pair(ch, end=8), st))
    if q:
        for ch in F.chains(["L", "A", "F1", "P1"], 2):
            if len(ch) == 2:
                cs.append(with_steps(F.pair(ch, end=8), ([1], [3])))
    steplists3 = [([1], [1], [1]), ([1], [2], [3]), ([3], [1], [2]), ([2], [2], [1]), ([1, 2], [2], [1, 1, 3])]
    sub = ["L", "F1", "A"] if q else ["L", "F1", "A", "P1", "N", "S", "M"]
    for c1 in F.chains(sub, 1):
        for c2 in F.chains(sub, 1):
            for st in steplists3 if not q else steplists3[:4]:
                cs.append(with_steps(F.line3(c1, c2, end=8), st))
                cs.append(with_steps(F.join3(c1, c2, end=8), st))
                cs.append(with_steps(F.fan3(c1, c2, end=8), st))
    for trunk in ([F.TOK["S"]], [F.TOK["S"], F.TOK["S"]]):
        for c1 in F.chains(["L", "F1", "S"], 1):
            for c2 in F.chains(["L", "F1"], 1):
                for st in steplists3[:3]:
                    cs.append(with_steps(F.fan3trunk(trunk, c1, c2, end=8), st))
    for c1 in F.chains(["L", "F1", "S", "P1"], 1):
        for c2 in F.chains(["F1", "S", "P1"], 1, src_pull_based=True):
            for st in steplists2[:4]:
                cs.append(with_steps(F.viaP(c1, c2, end=8), st))
                cs.append(with_steps(F.viaP2(c1, c2, [], end=8), st))
                cs.append(with_steps(F.viaP2(c1, [], c2, end=8), st))
                cs.append(with_steps(F.viaPdup(c1, [], c2, end=8), st))
                cs.append(with_steps(F.viaPdup(c1, c2, [], end=8), st))
        for st in steplists3[:3]:
            cs.append(with_steps(F.diamondP(end=8, ch=c1), st))
            cs.append(with_steps(F.shareP(end=8), st))
        cs.append(with_steps(F.viaPP(c1, [], [], end=8), ([1], [2])))
    # rings: unbroken and sufficiently delayed cycles (in-between delays are order dependent by nature of tie-breaking and are C04's business)
    for mat in ([], [["F", 4]], [["F", 2], ["F", 2]], [["F", 6]], [["L"]], [["F", 1], ["S", 2], ["F", 3]]):
        for st in (([1], [1]), ([2], [2]), ([1, 2], [2, 1]), ([2], [1])):
            for c in (F.ring(2, {1: mat}, end=8), F.ring(2, {0: mat}, end=8, pnode=1 if F.chain_ok(mat, True) else None)):
                c = with_steps(c, st)
                if classify(c) != "between":
                    cs.append(c)
    for mat in ([], [["F", 6]], [["F", 3], ["F", 3]], [["F", 9]]):
        for st in steplists3[:4]:
            c = with_steps(F.ring(3, {2: mat}, end=8), st)
            if classify(c) != "between":
                cs.append(c)
            c = with_steps(F.ring(3, {0: mat}, end=8, chord=(0, 2, mat)), st)
            if classify(c) != "between":
                cs.append(c)
    return [dict(cfg=c, full=not q) for c in cs]


def run(tier, seed, agg):
    cs = cases(tier)
    k = seed % len(cs)
    cs = cs[k:] + cs[:k]
    for r in pmap(run_case, cs, chunksize=2):
        agg.add(r)
    return dict(
        level="model_checking",
        rule="for every configuration ALL n! listing orders x ALL link-creation orders (<=3 links quick / <=4 thorough; rotations beyond) are executed on the real Composition with fixed cyclic step lists; "
        "the outcome signature (exception class, exchanged infos of every slot, final times, full (time,value) series of every consumer incl. initial pulls) must equal that of the identity order. "
        "states/transitions = component-update states visited; non-trivial = configurations in which the driver had to break a tie between equally advanced components",
        bound=dict(components="<=4", horizon_h=8, chain_len=1 if tier == "quick" else 2),
        assumptions=["domain as stated: producers declare units and grids, no DelayToPush", "cycles with positive but insufficient delay are excluded (their outcome legitimately depends on tie-breaking; C04 accepts either)"],
    )
