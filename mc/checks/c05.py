"""C05 - the coupling outcome is independent of listing and linking order (engine A, fixed-sequence mode, differential)."""
import itertools
import json

from core.pool import pmap
from core.runner import viol
from harness import families as F
from harness import sched

from checks.c04 import classify

SIGMA = ["S", "L", "N", "T", "A", "M", "F1", "Fh", "P1"]  # no DelayToPush (push-time dependent)


def perms(cfg, full):
    names = [c["name"] for c in cfg["comps"]]
    nl = len(cfg["links"])
    orders = list(itertools.permutations(names))
    lorders = list(itertools.permutations(range(nl))) if nl <= (4 if full else 3) else [tuple(range(nl)), tuple(reversed(range(nl)))] + [tuple(range(k, nl)) + tuple(range(k)) for k in range(1, nl)]
    return orders, lorders


def structure(cfg):
    """structural class of a known defect (C01 finding): DelayToPull on a link into a pull-based component that is pulled twice by one consumer"""
    kinds = {c["name"]: c["kind"] for c in cfg["comps"]}
    for l in cfg["links"]:
        if kinds[l["dst"]] == "P" and any(t[0] == "P" for t in l["chain"]):
            outs = [(m["src"], m["dst"]) for m in cfg["links"] if m["src"] == l["dst"]]
            if len(outs) != len(set(outs)):
                return "delay_to_pull_into_pull_based_component_read_twice_by_one_consumer"
    return None


def run_case(case):
    cfg, full = case["cfg"], case.get("full", False)
    res = dict(n=0, traces=0, states=0, transitions=0, nontrivial=0, counters={}, violations=[])
    if "order" in case:  # replay of one permutation against the identity order
        pairs = [(tuple(case["order"]), tuple(case["link_order"]))]
    else:
        orders, lorders = perms(cfg, full)
        pairs = [(o, lo) for o in orders for lo in lorders]
    names = [c["name"] for c in cfg["comps"]]
    base, r0 = sched.signature(dict(cfg, order=names, link_order=list(range(len(cfg["links"])))))
    bj = json.dumps(base, sort_keys=True)
    ties = r0.stats.get("updates_with_time_ties", 0)
    sigs = {bj}
    for o, lo in pairs:
        sig, r = sched.signature(dict(cfg, order=list(o), link_order=list(lo)))
        res["n"] += 1
        res["traces"] += 1
        res["states"] += r.stats.get("updates", 0) + 1
        res["transitions"] += r.stats.get("updates", 0)
        sj = json.dumps(sig, sort_keys=True)
        sigs.add(sj)
        if sj != bj:
            what = [k for k in ("outcome", "infos", "times", "series") if sig[k] != base[k]]
            fp = dict(kind="outcome_depends_on_order", differs=what[0], base=base["outcome"][-1], other=sig["outcome"][-1])
            fp["config"] = cfg["family"] + ":" + "|".join(sched.tok_class(l["chain"]) for l in cfg["links"])
            res["violations"].append(viol(fp, f"family {cfg['family']} links {[(l['src'], l['dst'], l['chain']) for l in cfg['links']]}: listing {o} / link order {lo} gives {sig['outcome']} {what} vs identity order {base['outcome']}", dict(cfg=cfg, order=list(o), link_order=list(lo))))
    if ties:
        res["nontrivial"] = 1
    res["counters"]["configs_with_ties"] = 1 if ties else 0
    res["counters"]["distinct_signatures_max"] = 0
    res["counters"]["outcome_" + base["outcome"][-1]] = 1
    res["counters"]["configs_with_several_signatures"] = 1 if len(sigs) > 1 else 0
    res["sample"] = dict(family=cfg["family"], links=cfg["links"], steps=[c.get("fixed") for c in cfg["comps"]], permutations=len(pairs), distinct_signatures=len(sigs))
    return res


def connect_signature(specs, links, order, lo):
    from harness import cnode

    out, comps = cnode.run_connect(specs, links, list(order), list(lo))
    sig = dict(outcome=list(out[:2]) if out[0] != "exc" else [out[0], out[1]])
    if out[0] == "ok":
        sig["data"] = {n + "." + i: None if c.connector.in_data.get(i) is None else round(float(c.connector.in_data[i].magnitude.ravel()[0]), 9) for n, c in sorted(comps.items()) for i, _m in c.ins}
        meta = lambda info: sorted((k, str(v)) for k, v in info.meta.items())  # noqa
        sig["infos"] = {n + "." + i: (str(c.inputs[i].info.grid), str(c.inputs[i].info.units), str(c.inputs[i].info.time), meta(c.inputs[i].info)) for n, c in sorted(comps.items()) for i, _m in c.ins}
        sig["out_infos"] = {n + "." + o[0]: (str(c.outputs[o[0]].info.grid), str(c.outputs[o[0]].info.time), meta(c.outputs[o[0]].info)) for n, c in sorted(comps.items()) for o in c.outs}
        sig["pubs"] = {n + "." + o[0]: sorted(str(t) for t, _ in c.outputs[o[0]].data) for n, c in sorted(comps.items()) for o in c.outs}
    return sig


def run_connect_case(case):
    res = dict(n=0, traces=0, states=0, transitions=0, nontrivial=0, counters={}, violations=[])
    for specs, links in case["shapes"]:
        specs = [(s[0], [tuple(x) for x in s[1]], [tuple(x) for x in s[2]], s[3]) for s in specs]
        links = [((l[0][0], l[0][1]), (l[1][0], l[1][1])) + tuple(l[2:]) for l in links]
        names = [s[0] for s in specs]
        base = json.dumps(connect_signature(specs, links, names, range(len(links))), sort_keys=True)
        pairs = [(case["order"], case["link_order"])] if case.get("order") else [(o, lo) for o in itertools.permutations(names) for lo in (itertools.permutations(range(len(links))) if len(links) <= 3 else [tuple(range(len(links))), tuple(reversed(range(len(links))))])]
        for o, lo in pairs:
            sj = json.dumps(connect_signature(specs, links, o, lo), sort_keys=True)
            res["n"] += 1
            res["traces"] += 1
            if sj != base:
                a, b = json.loads(base), json.loads(sj)
                what = [k for k in a if a.get(k) != b.get(k)] or ["outcome"]
                res["violations"].append(viol(dict(kind="connect_outcome_depends_on_order", differs=what[0], base=a["outcome"][0], other=b["outcome"][0]), f"connect phase specs={specs} links={links}: listing {o} / link order {lo} gives {b['outcome']} vs identity order {a['outcome']} ({what})", dict(connect=True, shapes=[[specs, links]], order=list(o), link_order=list(lo))))
        res["nontrivial"] += 1
    res["states"] = res["transitions"] = res["n"]
    res["sample"] = dict(connect_shape=case["shapes"][0][0])
    return res


def stack_signature(case, order):
    """one producer, consumers behind one StackTime adapter each (collects every publication up to the requested time)"""
    import numpy as np
    from core.common import T0, H, compose, fm, hrs

    grid = fm.UniformGrid((2, 3))  # (StackTime on a NoGrid link fails in the base Adapter for more than one entry: outside C05, same in every order)

    class Prod(fm.TimeComponent):
        def __init__(self, step):
            super().__init__()
            self._time, self.step = T0, step

        def _next_time(self):
            return self.time + H(self.step)

        def _initialize(self):
            self.outputs.add(name="o", time=self.time, grid=grid, units="")
            self.create_connector()

        def _connect(self, st):
            self.try_connect(st, push_data={"o": np.full((1, 2), float(hrs(self.time)))})

        def _validate(self):
            pass

        def _update(self):
            self._time += H(self.step)
            self.outputs["o"].push_data(np.full((1, 2), float(hrs(self.time))), self.time)

        def _finalize(self):
            pass

    class Cons(fm.TimeComponent):
        def __init__(self, step):
            super().__init__()
            self._time, self.step, self.series = T0, step, []

        def _next_time(self):
            return self.time + H(self.step)

        def _initialize(self):
            self.inputs.add(name="i", time=self.time, grid=None, units=None)
            self.create_connector(pull_data=["i"])

        def _connect(self, st):
            self.try_connect(st)
            d = self.connector.in_data.get("i")
            if d is not None and not self.series:
                self.series.append((0.0, [round(float(x), 9) for x in np.asarray(d.magnitude)[:, 0, 0]]))

        def _validate(self):
            pass

        def _update(self):
            self._time += H(self.step)
            d = self.inputs["i"].pull_data(self.time)
            self.series.append((float(hrs(self.time)), [round(float(x), 9) for x in np.asarray(d.magnitude)[:, 0, 0]]))

        def _finalize(self):
            pass

    comps = {"A": Prod(case["pstep"])}
    for k, st in enumerate(case["csteps"]):
        comps["BCD"[k]] = Cons(st)
    comp = compose([comps[n] for n in order])
    for k in range(len(case["csteps"])):
        comps["A"].outputs["o"] >> fm.adapters.StackTime() >> comps["BCD"[k]].inputs["i"]
    try:
        comp.run(end_time=T0 + H(case["end"]))
        out = "done"
    except Exception as e:  # noqa
        out = type(e).__name__
    if out != "done":
        return dict(outcome=out)
    return dict(outcome=out, times={n: float(hrs(c.time)) for n, c in comps.items()}, series={n: c.series for n, c in comps.items() if n != "A"})


def run_stack_case(case):
    res = dict(n=0, traces=0, states=0, transitions=0, nontrivial=1, counters={"stack_time_configs": 1}, violations=[])
    names = ["A"] + ["BCD"[k] for k in range(len(case["csteps"]))]
    base = stack_signature(case, names)
    for o in [tuple(case["order"])] if case.get("order") else itertools.permutations(names):
        sig = stack_signature(case, list(o))
        res["n"] += 1
        res["traces"] += 1
        res["states"] += sum(len(v) for v in sig.get("series", {}).values())
        if sig != base:
            what = [k for k in base if sig.get(k) != base[k]] or ["outcome"]
            res["violations"].append(viol(dict(kind="outcome_depends_on_order", differs=what[0], config="stacktime", base=base["outcome"], other=sig["outcome"]), f"StackTime: producer step {case['pstep']}, consumer steps {case['csteps']}: listing {o} differs from {names} in {what}: {sig.get('series')} vs {base.get('series')}", dict(case, stack=True, order=list(o))))
    res["transitions"] = res["states"]
    res["sample"] = dict(case)
    return res


def replay(case):
    if case.get("stack"):
        return run_stack_case(case)["violations"]
    if case.get("connect"):
        return run_connect_case(case)["violations"]
    return run_case(case)["violations"]


def with_steps(cfg, steps):
    c2 = dict(cfg, comps=[dict(x) for x in cfg["comps"]])
    for x, fx in zip([x for x in c2["comps"] if x["kind"] == "T"], steps):
        x["fixed"] = list(fx)
    return c2


def cases(tier):
    q = tier == "quick"
    cs = []
    steplists2 = [([1], [1]), ([1], [3]), ([3], [1]), ([2], [3]), ([1, 2], [2, 1]), ([2], [2])]
    for ch in F.chains(SIGMA, 1 if q else 2):
        for st in steplists2 if not q else steplists2[:5]:
            cs.append(with_steps(F.pair(ch, end=8), st))
    if q:
        for ch in F.chains(["L", "A", "F1", "P1"], 2):
            if len(ch) == 2:
                cs.append(with_steps(F.pair(ch, end=8), ([1], [3])))
    steplists3 = [([1], [1], [1]), ([1], [2], [3]), ([3], [1], [2]), ([2], [2], [1]), ([1, 2], [2], [1, 1, 3])]
    sub = ["L", "F1", "A"] if q else ["L", "F1", "A", "P1", "N", "S", "M"]
    for c1 in F.chains(sub, 1):
        for c2 in F.chains(sub, 1):
            for st in steplists3 if not q else steplists3[:4]:
                cs.append(with_steps(F.line3(c1, c2, end=8), st))
                cs.append(with_steps(F.join3(c1, c2, end=8), st))
                cs.append(with_steps(F.fan3(c1, c2, end=8), st))
    if q:  # a producer that has run ahead of one consumer's request (NextTime / PreviousTime pick by position in the buffer)
        for c1 in ([F.TOK["N"]], [F.TOK["V"]], [F.TOK["T"]]):
            for c2 in ([], [F.TOK["L"]]):
                for st in steplists3[:4]:
                    cs.append(with_steps(F.fan3(c1, c2, end=8), st))
                    cs.append(with_steps(F.fan3(c2, c1, end=8), st))
    # fan-out behind a no-branch adapter: rejected by validation, for every order alike
    for st in steplists3[:2]:
        cs.append(with_steps(F.fan3trunk([F.TOK["L"]], [], [], end=8), st))
        cs.append(with_steps(F.fan3trunk([F.TOK["S"], F.TOK["P1"]], [], [F.TOK["S"]], end=8), st))
        cs.append(with_steps(F.fan3trunk([F.TOK["L"], F.TOK["S"], F.TOK["S"]], [], [], end=8), st))
        cs.append(with_steps(F.fan3trunk([F.TOK["P1"], F.TOK["S"], F.TOK["S"]], [], [F.TOK["S"]], end=8), st))
    for trunk in ([F.TOK["S"]], [F.TOK["S"], F.TOK["S"]]):
        for c1 in F.chains(["L", "F1", "S"], 1):
            for c2 in F.chains(["L", "F1"], 1):
                for st in steplists3[:3]:
                    cs.append(with_steps(F.fan3trunk(trunk, c1, c2, end=8), st))
    for c1 in F.chains(["L", "F1", "S", "P1"], 1):
        for c2 in F.chains(["F1", "S", "P1"], 1, src_pull_based=True):
            for st in steplists2[:4]:
                cs.append(with_steps(F.viaP(c1, c2, end=8), st))
                cs.append(with_steps(F.viaP2(c1, c2, [], end=8), st))
                cs.append(with_steps(F.viaP2(c1, [], c2, end=8), st))
                cs.append(with_steps(F.viaPdup(c1, [], c2, end=8), st))
                cs.append(with_steps(F.viaPdup(c1, c2, [], end=8), st))
        for st in steplists3[:3]:
            cs.append(with_steps(F.diamondP(end=8, ch=c1), st))
            cs.append(with_steps(F.shareP(end=8), st))
        cs.append(with_steps(F.viaPP(c1, [], [], end=8), ([1], [2])))
    # rings: unbroken and sufficiently delayed cycles (in-between delays are order dependent by nature of tie-breaking and are C04's business)
    for mat in ([], [["F", 4]], [["F", 2], ["F", 2]], [["F", 6]], [["L"]], [["F", 1], ["S", 2], ["F", 3]]):
        for st in (([1], [1]), ([2], [2]), ([1, 2], [2, 1]), ([2], [1])):
            for c in (F.ring(2, {1: mat}, end=8), F.ring(2, {0: mat}, end=8, pnode=1 if F.chain_ok(mat, True) else None)):
                c = with_steps(c, st)
                if classify(c) != "between":
                    cs.append(c)
    for mat in ([], [["F", 6]], [["F", 3], ["F", 3]], [["F", 9]]):
        for st in steplists3[:4]:
            c = with_steps(F.ring(3, {2: mat}, end=8), st)
            if classify(c) != "between":
                cs.append(c)
            c = with_steps(F.ring(3, {0: mat}, end=8, chord=(0, 2, mat)), st)
            if classify(c) != "between":
                cs.append(c)
    # a component that learns its own time only while connecting (time is None before): the start of the composition comes from the others
    for fam in ("pair", "line3", "join3"):
        for which in range(3):
            for starts in ([0, 0, 0], [1, 0, 0], [0, 1, 0], [2, 1, 0], [0, 2, 1]):
                for ch in ([], [F.TOK["L"]]):
                    c = F.pair(ch, end=8) if fam == "pair" else (F.line3(ch, [], end=8) if fam == "line3" else F.join3(ch, [], end=8))
                    n = len(c["comps"])
                    if which >= n:
                        continue
                    c = with_steps(c, ([1], [2], [3])[:n])
                    for x, s0 in zip(c["comps"], starts):
                        x["start"] = s0
                    c["comps"][which]["late_time"] = True
                    if all(x["start"] > 0 or x.get("late_time") for x in c["comps"]):
                        continue
                    cs.append(c)
    return [dict(cfg=c, full=not q) for c in cs]


def run(tier, seed, agg):
    cs = cases(tier)
    k = seed % len(cs)
    cs = cs[k:] + cs[:k]
    for r in pmap(run_case, cs, chunksize=2):
        agg.add(r)
    stack = [dict(stack=True, pstep=p, csteps=list(cst), end=12) for p in (1, 2, 3) for n in (1, 2, 3) for cst in itertools.product((1, 2, 3, 4), repeat=n) if n < 3 or tier != "quick" or cst[0] <= cst[1] <= cst[2]]
    for r in pmap(run_stack_case, stack, chunksize=4):
        agg.add(r)
    # connect phase: dependency shapes of metadata / initial data exchange (harness of C06), every listing and link order against the identity order
    from checks import c06

    shapes = list(c06.two_slot_shapes()) + list(c06.stuck_plus_arg_shapes()) + list(c06.trunk_shapes()) + list(c06.single_slot_shapes(3, lambda n: [(0, 0, 0)], max_ext=0 if tier == "quick" else 1))
    shapes += list(c06.staged_shapes())
    shapes += list(c06.tagged_shapes())
    for r in pmap(run_connect_case, [dict(shapes=shapes[i : i + 25]) for i in range(0, len(shapes), 25)]):
        agg.add(r)
    return dict(
        level="model_checking",
        rule="for every configuration ALL n! listing orders x ALL link-creation orders (<=3 links quick / <=4 thorough; rotations beyond) are executed on the real Composition with fixed cyclic step lists; "
        "the outcome signature (exception class, exchanged infos of every slot, final times, full (time,value) series of every consumer incl. initial pulls) must equal that of the identity order. "
        "StackTime (collects all publications up to the request): one producer, 1-3 consumers behind their own StackTime, all step combinations from {1,2,3}x{1,2,3,4}, all listing orders, full stacked arrays compared. "
        "Connect phase: the dependency shapes of C06 (metadata / initial data, two-slot components, stuck cycles, fan-out behind an adapter, staged feedback) under all listing and link orders: outcome, stuck-component list, exchanged infos, initial values and initial publications must not depend on the order. "
        "states/transitions = component-update states visited; non-trivial = configurations in which the driver had to break a tie between equally advanced components",
        bound=dict(components="<=4", horizon_h=8, chain_len=1 if tier == "quick" else 2),
        assumptions=["domain as stated: producers declare units and grids, no DelayToPush", "cycles with positive but insufficient delay are excluded (their outcome legitimately depends on tie-breaking; C04 accepts either)"],
    )
