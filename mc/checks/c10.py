"""C10 - spilling to disk is invisible and leaves no files behind (fault enumeration over memory limits, differential)."""
import itertools
import os
import shutil

import numpy as np

from core.common import H, T0, VERIF, compose, fm, hrs
from core.pool import pmap
from core.runner import viol

D = fm.adapters
# one scratch directory per run (process id of the process that imports this module; forked workers inherit it): two runs of this check at the
# same time - e.g. one against /repo and one against a scratch tree - must not see or remove each other's files
WORK = os.path.join(VERIF, "work", "C10-%d" % os.getpid())
import atexit  # noqa: E402

atexit.register(lambda: shutil.rmtree(WORK, ignore_errors=True) if os.path.isdir(WORK) and os.getpid() == int(WORK.rsplit("-", 1)[1]) else None)

KINDS = ["direct", "Next", "Previous", "Linear", "Step", "Avg", "AvgStep", "Sum", "SumAbs", "SumLin"]
# the same buffering adapters followed by a fixed delay (requests are clamped to the start time at first: the adapter is asked for its
# first buffered time again and again while more data arrives), and a delay upstream of the adapter
DELAYED = ["Next+D", "Linear+D", "Step+D", "Avg+D", "AvgStep+D", "Sum+D", "SumAbs+D", "D+Linear", "direct+D"]
PAYLOADS = ["scalar", "grid", "masked"]
MORE_PAYLOADS = ["masked_sometimes"]  # a masked payload whose mask is empty for some publications


def mk_adapter(kind):
    return {
        "direct": lambda: None, "static": lambda: None, "Next": D.NextTime, "Previous": D.PreviousTime, "Linear": D.LinearTime, "Step": lambda: D.StepTime(step=0.5),
        "Avg": D.AvgOverTime, "AvgStep": lambda: D.AvgOverTime(step=0.5), "Sum": lambda: D.SumOverTime(per_time=True), "SumAbs": lambda: D.SumOverTime(per_time=False),
        "SumLin": lambda: D.SumOverTime(step=None, per_time=True),
    }[kind]()


GRID = fm.UniformGrid((3, 4))  # cells: shape (2, 3)
MASK = np.array([[False, True, False], [False, False, True]])


OFFSET = [0.0]  # added to every published value (back-to-back runs publish different data in every run)


def payload(kind, t):
    h = float(hrs(t))
    if kind == "scalar":
        return 1.0 + h * h + OFFSET[0]
    base = np.arange(6.0).reshape(2, 3) + 10.0 * h + h * h + OFFSET[0]
    if kind == "grid":
        return base
    if kind in ("grid_foreign", "grid_foreign_rate"):
        # a quantity in a compatible foreign unit (x1000): must arrive converted whether or not it was spilled in between
        return fm.UNITS.Quantity(base * 1000.0, "mm" if kind == "grid_foreign" else "um/h")
    if kind == "masked_sometimes":
        return np.ma.array(base, mask=MASK if int(h) % 2 else np.zeros_like(MASK), fill_value=-1.0)
    return np.ma.array(base, mask=MASK)


class AliasAccepted(Exception):
    pass


class Prod(fm.TimeComponent):
    def __init__(self, pk, step, units, repush=False):
        super().__init__()
        self._time = T0
        self.pk, self.step, self.units = pk, step, units
        self.static = False
        self.repush = repush  # every step is published twice for the same time (a preliminary value, then the final one)

    def _next_time(self):
        return self.time + H(self.step)

    def _initialize(self):
        if self.pk == "scalar":
            info = fm.Info(time=self.time, grid=fm.NoGrid(), units=self.units)
        elif self.pk in ("grid", "grid_foreign", "grid_foreign_rate"):
            info = fm.Info(time=self.time, grid=GRID, units=self.units)
        elif self.pk == "masked_sometimes":
            info = fm.Info(time=self.time, grid=GRID, units=self.units, mask=fm.Mask.FLEX)
        else:
            info = fm.Info(time=self.time, grid=GRID, units=self.units, mask=MASK)
        self.outputs.add(name="o", info=info, static=self.static)
        self.create_connector()

    def _connect(self, st):
        self.try_connect(st, push_data={"o": payload(self.pk, self.time)})

    def _validate(self):
        pass

    def _update(self):
        self.watch("before_update_prod")
        self._time = self.next_time
        if self.repush == "alias":
            # fault: the component first hands in the array it published last (refused: shares memory with retained data), handles the
            # error and publishes a fresh array - the refused attempt must leave nothing behind
            prev = getattr(self, "_prev", None)
            held = self.outputs["o"].data
            # (the fault is injected only where it is one: when the newest retained entry is still in memory; once it has been spilled the same
            # call would be a legal second publication)
            if isinstance(prev, np.ndarray) and held and not isinstance(held[-1][1], str):
                try:
                    self.outputs["o"].push_data(prev, self.time)
                    raise AliasAccepted()  # the retained entry had been spilled already: nothing is shared, the run has left the fault's domain
                except fm.errors.FinamDataError:
                    pass
        elif self.repush:
            self.outputs["o"].push_data(payload(self.pk, self.time) * 0.5, self.time)
        if not self.static:
            self._prev = payload(self.pk, self.time)
            self.outputs["o"].push_data(self._prev, self.time)
        self.watch("after_update_prod")

    def _finalize(self):
        pass

    watch = staticmethod(lambda tag: None)


class Cons(fm.TimeComponent):
    def __init__(self, pk, step):
        super().__init__()
        self._time = T0
        self.pk, self.step = pk, step
        self.series = []

    def _next_time(self):
        return self.time + H(self.step)

    def _initialize(self):
        self.inputs.add(name="i", time=self.time, grid=None, units=None, static=getattr(self, "static", False))
        self.create_connector(pull_data=["i"])

    def rec(self, t, d):
        m = d.magnitude
        writeable = bool(np.ma.getdata(m).flags.writeable) if hasattr(m, "flags") else True
        self.series.append((float(hrs(t)), str(d.units) + ("" if writeable else " [read-only]"), np.ma.getmaskarray(m).tolist() if np.ma.isMaskedArray(m) else None, np.ma.filled(m, -999.0).tolist() if np.ma.isMaskedArray(m) else np.asarray(m).tolist()))

    def _connect(self, st):
        had = self.connector.in_data.get("i") is not None
        self.try_connect(st)
        d = self.connector.in_data.get("i")
        if not had and d is not None:
            self.rec(st, d)

    def _validate(self):
        pass

    def _update(self):
        nt = self.next_time
        d = self.inputs["i"].pull_data(nt)
        self.rec(nt, d)
        self._time = nt

    def _finalize(self):
        pass


def listing(root):
    out = []
    for dp, _dn, fns in os.walk(root):
        for fn in fns:
            out.append(os.path.relpath(os.path.join(dp, fn), root))
    return sorted(out)


def chain_for(kind):
    parts = kind.split("+")
    out = []
    for p in parts:
        if p == "D":
            out.append(D.DelayFixed(H(2)))
        elif p not in ("direct", "static"):
            out.append(mk_adapter(p))
    return out


def run_one(kind, pk, limit, steps, end, tag, via="composition", order="PC", repush=False, names_out=None):
    """returns (series | ('EXC', cls, msg), files_outside, files_left, spilled_files_seen)"""
    wd = os.path.join(WORK, tag)
    shutil.rmtree(wd, ignore_errors=True)
    os.makedirs(wd)
    old = os.getcwd()
    os.chdir(wd)
    loc = os.path.join(wd, "spill")
    seen, outside = set(), set()

    def watch(_tag):
        for f in listing(wd):
            if f.startswith("spill" + os.sep):
                seen.add(f)
            else:
                outside.add(f)

    Prod.watch = staticmethod(watch)
    units = "mm/h" if kind.split("+")[0] in ("Sum", "SumLin") or kind.endswith("+Sum") else "m"
    try:
        p, c = Prod(pk, steps[0], units, repush), Cons(pk, steps[1])
        if kind == "static":  # a static output read by a static input on every step of the consumer
            p.static = c.static = True
        comp = compose([p, c] if order == "PC" else [c, p], slot_memory_limit=limit if via == "composition" else None, slot_memory_location=loc)
        ads = chain_for(kind)
        if via == "slot":  # limit given per slot, location composition-wide
            p.outputs["o"].memory_limit = limit
            for a in ads:
                a.memory_limit = limit
        cur = p.outputs["o"]
        for a in ads:
            cur = cur >> a
        cur >> c.inputs["i"]
        try:
            comp.run(end_time=T0 + H(end))
            res = c.series
        except Exception as e:  # noqa
            res = ("EXC", type(e).__name__, str(e)[:160])
        watch("end")
        left = [f for f in listing(wd) if f.startswith("spill" + os.sep)]
    finally:
        os.chdir(old)
        shutil.rmtree(wd, ignore_errors=True)
    if names_out is not None:
        names_out.update(seen)
    return res, sorted(outside), left, len(seen)


def run_back_to_back(case):
    """process-wide state: R compositions of the same structure run one after the other in ONE process on the same spill location, each
    publishing different data (offset 1000 x run), the earlier ones finalized and released before the next is built - so slot objects,
    their ids and therefore spill file names are re-used. Every run must deliver what the same run delivers without memory limit."""
    import gc

    kind, pk, steps, end, lim, R = case["kind"], case["payload"], tuple(case["steps"]), case["end"], case["limit"], case["runs"]
    tag = "b2b_%s_%s_%s_%s_%d" % (kind, pk, steps[0], steps[1], os.getpid())
    res = dict(n=R, nontrivial=0, counters={"back_to_back_runs": R}, violations=[])
    need = case.get("reuses", 10)
    res["n"] = 0
    try:
        refs = []
        for r in range(R):
            OFFSET[0] = 1000.0 * r
            refs.append(run_one(kind, pk, None, steps, end, tag)[0])
        gc.collect()
        prev, hits = set(), 0
        for r in range(R):
            # the case ends when `need` runs have re-used a spill file name of the run immediately before them (or after R runs)
            if hits >= need:
                break
            OFFSET[0] = 1000.0 * r
            names = set()
            got, _outside, left, _n = run_one(kind, pk, lim, steps, end, tag, names_out=names)
            gc.collect()
            res["n"] += 1
            if names & prev:
                hits += 1
                res["nontrivial"] += 1
            prev = names
            diff = same_series(refs[r], got)
            slot = "output" if kind.startswith("direct") else "adapter"
            if diff:
                res["violations"].append(viol(dict(kind="back_to_back_run_differs_from_unlimited_run", how=diff, slot=slot), f"run {r} of back-to-back runs, {kind}/{pk}/{steps} limit={lim}: {diff}: {str(got)[:160]}", dict(case, back_to_back=True)))
                break
            if left and not isinstance(got, tuple):
                res["violations"].append(viol(dict(kind="spill_files_left_after_finalize", slot="back_to_back"), f"run {r}: {len(left)} files left: {left[:2]}", dict(case, back_to_back=True)))
                break
        res["counters"] = {"back_to_back_runs": res["n"], "runs_reusing_a_spill_file_name_of_the_run_before": hits, "back_to_back_cases_without_enough_name_reuse": 0 if hits >= need or res["violations"] else 1}
    finally:
        OFFSET[0] = 0.0
    res["sample"] = dict(case)
    return res


def run_shared(case):
    """two compositions built side by side on ONE spill location, run one after the other (history: the first run has been finalized when the
    second one starts to spill): the second one must deliver what it delivers alone, and nothing may be left in the location"""
    pk, steps, lim = case["payload"], tuple(case["steps"]), case["limit"]
    tag = "shared_%s_%s_%s_%d" % (pk, steps[0], steps[1], os.getpid())
    res = dict(n=1, nontrivial=1, counters={"shared_location_runs": 1}, violations=[])
    alone, _o, _l, _n = run_one("direct", pk, lim, steps, case["end"], tag, "composition", "PC")
    wd = os.path.join(WORK, tag)
    shutil.rmtree(wd, ignore_errors=True)
    os.makedirs(wd)
    old = os.getcwd()
    os.chdir(wd)
    loc = os.path.join(wd, "spill")
    Prod.watch = staticmethod(lambda _t: None)
    try:
        pairs = []
        for k in range(2):
            p, c = Prod(pk, steps[0], "m"), Cons(pk, steps[1])
            comp = compose([p, c], slot_memory_limit=lim, slot_memory_location=loc)
            p.outputs["o"] >> c.inputs["i"]
            pairs.append((comp, c))
        if case.get("connect_second_first"):
            pairs[1][0].connect(T0)
        out = []
        for comp, c in pairs:
            try:
                comp.run(end_time=T0 + H(case["end"]))
                out.append(c.series)
            except Exception as e:  # noqa
                out.append(("EXC", type(e).__name__, str(e)[:160]))
        left = [f for f in listing(wd) if f.startswith("spill" + os.sep)]
    finally:
        os.chdir(old)
        shutil.rmtree(wd, ignore_errors=True)
    for k, got in enumerate(out):
        diff = same_series(alone, got)
        if diff:
            res["violations"].append(viol(dict(kind="shared_spill_location", how=diff, which=k, error=got[1] if isinstance(got, tuple) else None), f"composition {k} of two on one spill location, payload={pk} steps={steps} limit={lim}: {diff}: {str(got)[:200]}", dict(case, shared=True)))
    if left:
        res["violations"].append(viol(dict(kind="spill_files_left_after_finalize", slot="shared_location"), f"{len(left)} files left: {left[:2]}", dict(case, shared=True)))
    res["sample"] = dict(case)
    return res


def same_series(a, b):
    if isinstance(a, tuple) or isinstance(b, tuple):
        return "exception" if a != b else None
    if len(a) != len(b):
        return "length"
    for (t1, u1, m1, v1), (t2, u2, m2, v2) in zip(a, b):
        if t1 != t2:
            return "times"
        if u1 != u2:
            return "units" if u1.replace(" [read-only]", "") != u2.replace(" [read-only]", "") else "writeability"
        if m1 != m2:
            return "mask"
        try:
            if not np.allclose(np.asarray(v1, dtype=float), np.asarray(v2, dtype=float), rtol=1e-12, atol=0):
                return "values"
        except (ValueError, TypeError):
            return "values"  # not even numbers (e.g. the name of a spill file delivered as data)
    return None


def limits_for(size_bytes, n):
    s = size_bytes
    ls = [0, 1, s - 1, s, s + 1]
    for k in range(2, n + 1):
        ls += [k * s - 1, k * s, k * s + 1]
    return sorted(set(x for x in ls if x >= 0))


def run_case(case):
    kind, pk, steps, end = case["kind"], case["payload"], tuple(case["steps"]), case["end"]
    tag = "%s_%s_%s_%s_%d" % (kind, pk, steps[0], steps[1], os.getpid())
    res = dict(n=0, nontrivial=0, counters={}, violations=[])
    cnt = res["counters"]
    via = case.get("via", "composition")
    order = case.get("order", "PC")
    rp = case.get("repush") or False
    ref, out0, left0, _ = run_one(kind, pk, None, steps, end, tag, "composition", order, rp)
    size = 8 if pk == "scalar" else 48
    lims = case.get("limits") or limits_for(size, case["nmax"])
    if isinstance(ref, tuple) and rp:
        # publishing one time stamp twice is outside what the integration adapters define (zero-length interval): not C10's subject
        cnt["repush_unsupported_by_slot_kind"] = 1
        return res
    if isinstance(ref, tuple):
        res["violations"].append(viol(dict(kind="unlimited_run_fails", error=ref[1]), f"{kind}/{pk}/{steps}: run without limit fails: {ref}", dict(case, limits=[0])))
        return res
    for lim in lims:
        res["n"] += 1
        got, outside, left, nseen = run_one(kind, pk, lim, steps, end, tag, via, order, rp)
        if nseen:
            res["nontrivial"] += 1
            cnt["runs_that_spilled"] = cnt.get("runs_that_spilled", 0) + 1
        one = dict(case, limits=[lim])
        if isinstance(got, tuple) and got[1] == "AliasAccepted":
            cnt["alias_publication_accepted_because_previous_entry_was_spilled"] = cnt.get("alias_publication_accepted_because_previous_entry_was_spilled", 0) + 1
            continue
        if rp == "alias":
            cnt["runs_with_refused_alias_publications"] = cnt.get("runs_with_refused_alias_publications", 0) + 1
        diff = same_series(ref, got)
        slot = "output" if kind.startswith(("direct", "static")) else "adapter:" + kind
        if diff:
            detail = got[1] + ": " + got[2] if isinstance(got, tuple) else diff
            fp = dict(kind="series_differs_from_unlimited_run", how=diff, masked=pk == "masked")
            if isinstance(got, tuple):
                fp["error"] = got[1]
            if diff in ("units",) or (isinstance(got, tuple) and "units" in got[2].lower()):
                fp["slot"] = slot
            res["violations"].append(viol(fp, f"{slot} payload={pk} steps={steps} limit={lim}: {detail}", one))
        if outside:
            res["violations"].append(viol(dict(kind="file_outside_spill_location"), f"{slot} limit={lim}: files {outside[:3]}", one))
        if left and not isinstance(got, tuple):
            res["violations"].append(viol(dict(kind="spill_files_left_after_finalize", slot="output" if kind.startswith(("direct", "static")) else "adapter"), f"{slot} payload={pk} limit={lim}: {len(left)} files left, e.g. {left[:2]}", one))
    res["sample"] = dict(kind=kind, payload=pk, steps=steps, end=end, limits=lims[:6], series_len=len(ref))
    return res


def replay(case):
    if case.get("back_to_back"):
        return run_back_to_back(case)["violations"]
    if case.get("shared"):
        return run_shared(case)["violations"]
    return run_case(case)["violations"]


def run(tier, seed, agg):
    q = tier == "quick"
    pairs = [(a, b) for a in (1, 2, 3) for b in (1, 2, 3)]
    ends = (6, 7, 8) if q else (5, 6, 7, 8, 9, 10, 11, 12)
    end = ends
    cases = [dict(kind=k, payload=p, steps=list(s), end=e, nmax=4 if q else 7, via="composition") for k in KINDS for p in PAYLOADS for s in pairs for e in ends]
    cases += [dict(kind=k, payload=p, steps=list(s), end=7, nmax=2 if q else 4, via="slot") for k in KINDS for p in PAYLOADS for s in ((1, 1), (1, 2), (3, 2))]
    cases += [dict(kind=k, payload=p, steps=list(s), end=8, nmax=3 if q else 5, via="composition", order=o) for k in DELAYED for p in PAYLOADS for s in ((1, 1), (1, 2), (2, 1), (1, 3), (3, 2)) for o in ("PC", "CP")]
    cases += [dict(kind=k, payload="grid", steps=list(s), end=7, nmax=3, via="composition", order="CP") for k in KINDS for s in ((1, 1), (1, 2), (2, 3))]
    cases += [dict(kind=k, payload="grid_foreign_rate" if k in ("Sum", "SumLin") else "grid_foreign", steps=list(s), end=7, nmax=3, via="composition") for k in KINDS for s in ((1, 1), (1, 2), (2, 1), (1, 3))]
    cases += [dict(kind=k, payload="grid", steps=list(s), end=6, nmax=3, via="composition", repush=True) for k in ("direct", "Next", "Previous", "Linear", "Step", "Avg", "Sum", "SumAbs") for s in ((1, 1), (1, 2), (2, 1))]
    cases += [dict(kind=k, payload=p, steps=list(s), end=6, nmax=4, via=v, repush="alias") for k in ("direct", "Linear", "Avg", "Next+D") for p in ("grid", "masked") for s in ((1, 1), (1, 2), (2, 1)) for v in ("composition", "slot")]
    cases += [dict(kind="static", payload=p, steps=list(s), end=4, nmax=2, via=v) for p in PAYLOADS for s in ((1, 1), (2, 1)) for v in ("composition", "slot")]
    cases += [dict(kind=k, payload="masked_sometimes", steps=list(s), end=7, nmax=4, via="composition") for k in ("direct", "Next", "Previous", "Linear", "Step", "Avg") for s in ((1, 1), (1, 2), (2, 1), (1, 3))]
    # a slow producer under a fast consumer (several pulls inside one publication interval)
    cases += [dict(kind=k, payload=p, steps=list(s), end=14, nmax=3, via="composition") for k in ("direct", "Linear", "Next", "Avg") for p in ("scalar", "grid") for s in ((6, 1), (5, 2), (4, 1))]
    # long runs: dozens of publications and spill files (counters, name collisions, accumulated memory accounting)
    cases += [dict(kind=k, payload=p, steps=list(s), end=45, limits=[0, 47, 48, 100, 500], via="composition") for k in KINDS + ["Linear+D"] for p in ("grid", "masked") for s in ((1, 1), (1, 3), (2, 5), (1, 11))]
    k = seed % len(cases)
    cases = cases[k:] + cases[:k]
    os.makedirs(WORK, exist_ok=True)
    try:
        for r in pmap(run_case, cases):
            agg.add(r)
        shared = [dict(shared=True, payload=p, steps=list(st), end=6, limit=lim, connect_second_first=cf) for p in ("grid", "masked") for st in ((1, 1), (3, 1), (1, 2)) for lim in (0, 48, 100) for cf in (False, True)]
        for r in pmap(run_shared, shared):
            agg.add(r)
        b2b = [dict(back_to_back=True, kind=k, payload=p, steps=list(st), end=6, limit=lim, runs=80 if q else 200, reuses=8 if q else 20) for k in ("direct", "Linear", "Avg", "Sum", "Next+D") for p in ("grid", "masked") for st in ((1, 1), (1, 2)) for lim in (0, 48)]
        for r in pmap(run_back_to_back, b2b):
            agg.add(r)
    finally:
        shutil.rmtree(WORK, ignore_errors=True)
    return dict(
        level="fault_enumeration",
        rule="slot kind {output, Next, Previous, Linear, Step, Avg, Avg(step), Sum(per_time), Sum(absolute), Sum(linear); the same followed by DelayFixed(2h), DelayFixed upstream of LinearTime; both listing orders} x payload {scalar, 2x3 grid, 2x3 masked} x step pair x memory limit in "
        "{0,1,s-1,s,s+1,...,Ns+1} (every prefix of publications kept in RAM, off-by-one around each threshold), each run through the real Composition and compared with the run without limit; "
        "producers that first hand in the array published last (refused, handled) and then a fresh one; limit given composition-wide or per slot (with the composition-wide location); compositions of the same structure run back to back in one process on one spill location with different data until 8 (thorough 20) runs have re-used a spill file name of the run before them (slot ids repeat; at most 80/200 runs), each compared with its unlimited run; directory listing observed around every producer update and after run(). non-trivial = runs in which at least one spill file was observed",
        bound=dict(horizon_h=end, step_pairs=pairs, N=4 if q else 7),
        assumptions=["byte size s of one data set = 8 x number of elements", "series compared with rtol 1e-12"],
    )
