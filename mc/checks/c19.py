"""C19 - composition validation rejects exactly the unworkable topologies (engine B/D product)."""
import collections
import itertools

import numpy as np

from core.common import H, T0, compose, fm
from core.pool import pmap
from core.runner import viol

from finam.interfaces import NoBranchAdapter

D = fm.adapters
E = fm.errors


class NB(fm.Adapter, NoBranchAdapter):
    """pure no-branch marker, passes data through"""

    def _get_data(self, time, target):
        return self.pull_data(time, target)


AD = {"S": lambda: D.Scale(1.0), "L": D.LinearTime, "N": NB, "F": lambda: D.DelayFixed(H(1)), "P": lambda: D.DelayToPull(steps=1), "U": D.DelayToPush}
NOBRANCH = set("LNP")
NEEDS_PUSH = set("L")

CALLS = collections.Counter()


class Prod(fm.TimeComponent):
    def __init__(self, kind):
        super().__init__()
        self._name, self.kind, self._time = "P", kind, T0

    def _next_time(self):
        return self.time + H(1)

    def _initialize(self):
        if self.kind == "push":
            self.outputs.add(name="o", time=self.time, grid=fm.NoGrid(), units="")
        elif self.kind == "static":
            self.outputs.add(name="o", time=None, grid=fm.NoGrid(), units="", static=True)
        else:
            self.outputs.add(fm.CallbackOutput(callback=lambda caller, t: np.array(1.0), name="o", time=self.time, grid=fm.NoGrid(), units=""))
        self.create_connector()

    def _connect(self, st):
        CALLS["connect"] += 1
        self.try_connect(st, push_data={} if self.kind == "pull" else {"o": 1.0})

    def _validate(self):
        pass

    def _update(self):
        self._time = self.time + H(1)
        if self.kind == "push":
            self.outputs["o"].push_data(1.0, self.time)

    def _finalize(self):
        pass


class Cons(fm.TimeComponent):
    def __init__(self, name, kinds):
        super().__init__()
        self._name, self.kinds, self._time = name, kinds, T0

    def _next_time(self):
        return self.time + H(1)

    def _initialize(self):
        for n, k in self.kinds.items():
            if k == "pull":
                self.inputs.add(name=n, time=self.time, grid=fm.NoGrid(), units=None)
            elif k == "static":
                self.inputs.add(name=n, time=None, grid=fm.NoGrid(), units=None, static=True)
            elif k == "cb_static":
                self.inputs.add(fm.CallbackInput(callback=lambda caller, t: None, name=n, time=None, grid=fm.NoGrid(), units=None, static=True))
            else:
                self.inputs.add(fm.CallbackInput(callback=lambda caller, t: None, name=n, time=self.time, grid=fm.NoGrid(), units=None))
        self.create_connector()

    def _connect(self, st):
        CALLS["connect"] += 1
        self.try_connect(st)

    def _validate(self):
        pass

    def _update(self):
        self._time = self.time + H(1)

    def _finalize(self):
        pass


def predicate(t):
    """independent statement of the five rejection rules; returns the list of rules that apply"""
    rules = []
    src, ch1, s1, f, ch2, s2, listing, extra = t["src"], t["ch1"], t["s1"], t["fan"], t["ch2"], t["s2"], t["listing"], t["extra"]
    if extra:
        rules.append("unconnected_input")
    sinks = [(ch1, s1)] + ([(ch1[:f] + ch2, s2)] if f is not None else [])
    for path, s in sinks:
        if s in ("static", "cb_static") and src != "static":
            rules.append("static_input_from_non_static_output")
        if src == "pull" and (any(a in NEEDS_PUSH for a in path) or s in ("cb", "cb_static")):
            rules.append("push_needing_element_behind_pull_only_source")
    if listing != "all":
        rules.append("component_missing")
    if f is not None and any(a in NOBRANCH for a in ch1[:f]):
        rules.append("fan_out_at_or_below_no_branch_adapter")
    if t.get("ch3") is not None and src == "pull" and any(a in NEEDS_PUSH for a in t["ch3"]):
        rules.append("push_needing_element_behind_pull_only_source")
    return sorted(set(rules))


def run_topology(t):
    CALLS.clear()
    prod = Prod(t["src"])
    kinds1 = {"i": t["s1"]}
    if t["extra"]:
        kinds1["x"] = "pull"
    c1 = Cons("C1", kinds1)
    c2 = Cons("C2", {"i": t["s2"]}) if t["fan"] is not None else None
    c3 = Cons("C3", {"i": "pull"}) if t.get("ch3") is not None else None  # a third consumer on its own branch from the producer's output
    comps = [c for c in (prod, c1, c2, c3) if c is not None]
    listed = list(comps)
    if t["listing"] == "no_producer":
        listed.remove(prod)
    elif t["listing"] == "no_consumer":
        listed.remove(c1)
    for c in comps:
        if c not in listed:
            c.initialize()
    comp = compose(listed)
    edges = collections.Counter()

    def rep(x):
        if isinstance(x, fm.Adapter):
            return ("adapter", f"{x.name}@{id(x)}")
        for c in comps:
            for n, o in c.outputs.items():
                if o is x:
                    return ("component", f"{c.name}@{id(c)}", "output", n)
            for n, i in c.inputs.items():
                if i is x:
                    return ("component", f"{c.name}@{id(c)}", "input", n)

    def link(a, b):
        a >> b
        edges[(rep(a), rep(b))] += 1
        return b

    # the links are collected first and created in the order asked for (validation must not depend on the order of link creation)
    todo = []

    def plan(a, b):
        todo.append((a, b))
        return b

    cur = prod.outputs["o"]
    elems = [cur]
    for a in t["ch1"]:
        cur = plan(cur, AD[a]())
        elems.append(cur)
    plan(cur, c1.inputs["i"])
    if t["fan"] is not None:
        cur = elems[t["fan"]]
        for a in t["ch2"]:
            cur = plan(cur, AD[a]())
        plan(cur, c2.inputs["i"])
    if c3 is not None:
        cur = prod.outputs["o"]
        for a in t["ch3"]:
            cur = plan(cur, AD[a]())
        plan(cur, c3.inputs["i"])
    lo = t.get("lorder", "id")
    order = list(range(len(todo)))
    if lo == "rev":
        order.reverse()
    elif lo == "third_first" and c3 is not None:
        k = len(t["ch3"]) + 1
        order = order[-k:] + order[:-k]
    elif lo == "sinks_first":
        order = sorted(order, key=lambda i: (not isinstance(todo[i][1], fm.Input), i))
    for i in order:
        link(*todo[i])
    if t.get("refused"):
        # history: link requests that the library refuses (the input already has a source) are made again before connect; a refused
        # request creates no link and must not change the verdict or the reported links
        sinks = [(a, b) for a, b in todo if isinstance(b, fm.Input)]
        for a, b in sinks if t["refused"] == "dup_all" else sinks[-1:]:
            for _ in range(2 if t["refused"] == "dup_twice" else 1):
                try:
                    a >> b
                    edges[(rep(a), rep(b))] += 1
                except ValueError:
                    CALLS["refused_links"] += 1
        if t["refused"] == "other_source":
            try:
                prod.outputs["o"] >> c1.inputs["i"]
                edges[(rep(prod.outputs["o"]), rep(c1.inputs["i"]))] += 1
            except ValueError:
                CALLS["refused_links"] += 1
    want = predicate(t)
    bad = []
    outcome = "ok"
    try:
        comp.connect(T0)
    except E.FinamConnectError as e:
        outcome = "connect_error"
    except Exception as e:  # noqa
        outcome = "other:" + type(e).__name__
    if t.get("retry") and outcome == "connect_error":
        # history: the rejected composition is tried again - unchanged (same verdict) or after the missing link was created (verdict of the repaired topology)
        first = outcome
        if t["retry"] == "repair" and t["extra"]:
            link(prod.outputs["o"], c1.inputs["x"])
            want = predicate(dict(t, extra=False))
        elif t["retry"].startswith("repair_via:") and t["extra"]:
            # the missing link is created through a new adapter (an adapter the first, refused connect has never seen)
            a = t["retry"].split(":")[1]
            link(link(prod.outputs["o"], AD[a]()), c1.inputs["x"])
            want = predicate(dict(t, extra=False, ch3=[a]))
        CALLS.clear()
        outcome = "ok"
        try:
            comp.connect(T0)
        except E.FinamConnectError as e:
            outcome = "connect_error"
        except Exception as e:  # noqa
            outcome = "other:" + type(e).__name__
    if want:
        if outcome != "connect_error":
            bad.append(("not_rejected", f"rules {want} apply but connect() gave {outcome}"))
        elif CALLS["connect"]:
            bad.append(("rejected_after_exchange_started", f"{CALLS['connect']} component connect callbacks ran before FinamConnectError"))
    else:
        if outcome == "connect_error":
            bad.append(("rejected_but_workable", "no rejection rule applies but connect() raised FinamConnectError"))
        elif CALLS["connect"] == 0:
            bad.append(("validation_passed_but_nothing_connected", outcome))
        if outcome == "ok":
            got = collections.Counter()
            for l in comp.metadata["links"]:
                fr, to = l["from"], l["to"]
                a = ("adapter", fr["adapter"]) if "adapter" in fr else ("component", fr["component"], "output", fr["output"])
                b = ("adapter", to["adapter"]) if "adapter" in to else ("component", to["component"], "input", to["input"])
                got[(a, b)] += 1
            if got != edges:
                bad.append(("reported_links_differ_from_created_links", f"missing {sum((edges - got).values())} extra {sum((got - edges).values())}"))
            elif t["src"] == "push" and t["s1"] == "pull" and t["s2"] == "pull" and "L" not in t["ch1"] + t["ch2"]:
                # the reported link list must stay exact after the run as well
                try:
                    comp.run(end_time=T0 + H(3))
                    got2 = collections.Counter()
                    for l in comp.metadata["links"]:
                        fr, to = l["from"], l["to"]
                        a = ("adapter", fr["adapter"]) if "adapter" in fr else ("component", fr["component"], "output", fr["output"])
                        b = ("adapter", to["adapter"]) if "adapter" in to else ("component", to["component"], "input", to["input"])
                        got2[(a, b)] += 1
                    if got2 != edges:
                        bad.append(("reported_links_differ_after_run", f"missing {sum((edges - got2).values())} extra {sum((got2 - edges).values())}"))
                except Exception:  # noqa - these minimal components are not meant to run; only the link list is judged
                    pass
    return want, outcome, bad


def run_case(case):
    res = dict(n=0, nontrivial=0, counters=collections.Counter(), violations=[])
    for t in case["items"]:
        res["n"] += 1
        try:
            want, outcome, bad = run_topology(t)
        except Exception as e:  # noqa
            want, outcome, bad = [], "harness", [("harness_exception", f"{type(e).__name__}: {str(e)[:100]}")]
        res["nontrivial"] += 1 if (t["ch1"] or t["fan"] is not None) else 0
        res["counters"]["expect_reject" if want else "expect_pass"] += 1
        res["counters"]["outcome_" + outcome.split(":")[0]] += 1
        for clause, detail in bad:
            fp = dict(kind="validation", clause=clause, rules=want)
            res["violations"].append(viol(fp, f"{t}: {clause}: {detail}", dict(items=[t])))
    res["counters"] = dict(res["counters"])
    res["sample"] = case["items"][-1]
    return res


def replay(case):
    return run_case(case)["violations"]


def topologies(tier):
    q = tier == "quick"
    kinds = list(AD)
    out = []
    chains = [list(c) for n in range(0, (3 if q else 4)) for c in itertools.product(kinds, repeat=n)]
    for src in ("push", "static", "pull"):
        for ch1 in chains:
            for s1 in ("pull", "static", "cb", "cb_static"):
                for listing in ("all", "no_producer", "no_consumer"):
                    for extra in (False, True):
                        out.append(dict(src=src, ch1=ch1, s1=s1, fan=None, ch2=[], s2="pull", listing=listing, extra=extra))
                if len(ch1) > (2 if q else 3) - 0:
                    continue
                for f in range(len(ch1) + 1):
                    for ch2 in [[]] + [[k] for k in kinds]:
                        for s2 in ("pull", "static", "cb", "cb_static"):
                            for listing in (("all",) if (q and len(ch1) == 2) else ("all", "no_producer")):
                                out.append(dict(src=src, ch1=ch1, s1=s1, fan=f, ch2=ch2, s2=s2, listing=listing, extra=False))
    # long chains over {pass-through, no-branch marker, push-based} with the fan-out far below the no-branch adapter
    for n in (3, 4):
        for ch1 in itertools.product(("S", "N", "L"), repeat=n):
            for f in range(n + 1):
                for src in ("push", "pull"):
                    out.append(dict(src=src, ch1=list(ch1), s1="pull", fan=f, ch2=[], s2="pull", listing="all", extra=False))
                    if f == n:
                        out.append(dict(src=src, ch1=list(ch1), s1="cb", fan=f, ch2=["S"], s2="pull", listing="all", extra=False))
    # histories: a rejected composition is connected again, unchanged or after the missing link was created
    for src in ("push", "static", "pull"):
        for ch1 in [c for c in chains if len(c) <= 2]:
            for s1 in ("pull", "static", "cb"):
                for retry in ["same", "repair"] + ["repair_via:" + k for k in kinds]:
                    out.append(dict(src=src, ch1=ch1, s1=s1, fan=None, ch2=[], s2="pull", listing="all", extra=True, retry=retry))
                out.append(dict(src=src, ch1=ch1, s1=s1, fan=None, ch2=[], s2="pull", listing="no_producer", extra=False, retry="same"))
    # three consumers: a fan-out behind one branch of the output and a third consumer on a branch of its own, links created in several orders
    short = [c for c in chains if len(c) <= (1 if q else 2)]
    for src in ("push", "pull"):
        for ch1 in [c for c in chains if 1 <= len(c) <= 2]:
            for ch3 in short:
                for lo in ("id", "rev", "third_first", "sinks_first"):
                    out.append(dict(src=src, ch1=ch1, s1="pull", fan=len(ch1), ch2=[], s2="pull", listing="all", extra=False, ch3=ch3, lorder=lo))
    # histories: link requests that are refused (made a second time / from another source) before connect
    base = [x for x in out if not x.get("retry") and x.get("ch3") is None and x["listing"] == "all" and not x["extra"] and len(x["ch1"]) <= 2 and len(x["ch1"]) == len(set(x["ch1"]))]
    for t0 in base[:: (2 if q else 1)]:
        for rf in ("dup_last", "dup_all", "dup_twice", "other_source"):
            if rf == "dup_all" and t0["fan"] is None:
                continue
            out.append(dict(t0, refused=rf))
    for t0 in [x for x in out if x["fan"] is not None and x.get("ch3") is None and not x.get("refused") and x["listing"] == "all" and len(x["ch1"]) <= 1][:: (3 if q else 1)]:
        out.append(dict(t0, lorder="rev"))
        out.append(dict(t0, lorder="sinks_first"))
    return out


def run(tier, seed, agg):
    ts = topologies(tier)
    cases = [dict(items=ts[i : i + 300]) for i in range(0, len(ts), 300)]
    k = seed % len(cases)
    for r in pmap(run_case, cases[k:] + cases[:k]):
        agg.add(r)
    return dict(
        level="exploration",
        rule="full product source slot {push, static, pull-only} x chain of 0-2 (quick) / 0-3 (thorough) adapters over {pass-through, push-based+no-branch (LinearTime), pure no-branch marker, DelayFixed, DelayToPull} x sink {pull, static, push-notified} "
        "x fan-out {none, at the output, after adapter k} to a second chain (0-1 adapters) and sink x {all listed, producer missing, consumer missing} x {extra unconnected input}; connect() on the real Composition; "
        "independent predicate of the five rejection rules; on success metadata['links'] vs the multiset of created links. non-trivial = topologies with adapters or fan-out",
        bound=dict(chain_len=2 if tier == "quick" else 3),
        assumptions=["failures after validation (e.g. a push-based adapter on a static source) are ignored", "'before any data is exchanged' is observed as: no component connect callback ran"],
    )
