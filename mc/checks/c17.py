"""C17 - units: compatibility is dimensional equality, conversion physically exact, answers independent of query history (engine D + sequence search over the memo)."""
import itertools
import math
from fractions import Fraction as Fr

import numpy as np

from core.common import H, T0, fm
from core.pool import pmap
from core.runner import viol

U = fm.UNITS
E = fm.errors
T = fm.data.tools

PI180 = math.pi / 180
# hand-written reference: unit -> (exponents over (L, M, T, Theta, N), factor to the coherent SI unit, offset). No pint involved.
CAT = {
    "m": ((1, 0, 0, 0, 0), Fr(1), 0), "km": ((1, 0, 0, 0, 0), Fr(1000), 0), "mm": ((1, 0, 0, 0, 0), Fr(1, 1000), 0), "cm": ((1, 0, 0, 0, 0), Fr(1, 100), 0), "um": ((1, 0, 0, 0, 0), Fr(1, 10**6), 0),
    "m2": ((2, 0, 0, 0, 0), Fr(1), 0), "m**2": ((2, 0, 0, 0, 0), Fr(1), 0), "km2": ((2, 0, 0, 0, 0), Fr(10**6), 0), "ha": ((2, 0, 0, 0, 0), Fr(10**4), 0), "m-2": ((-2, 0, 0, 0, 0), Fr(1), 0),
    "m3": ((3, 0, 0, 0, 0), Fr(1), 0), "L": ((3, 0, 0, 0, 0), Fr(1, 1000), 0),
    "s": ((0, 0, 1, 0, 0), Fr(1), 0), "min": ((0, 0, 1, 0, 0), Fr(60), 0), "h": ((0, 0, 1, 0, 0), Fr(3600), 0), "d": ((0, 0, 1, 0, 0), Fr(86400), 0), "day": ((0, 0, 1, 0, 0), Fr(86400), 0), "ms": ((0, 0, 1, 0, 0), Fr(1, 1000), 0),
    "year": ((0, 0, 1, 0, 0), Fr(31557600), 0),
    "Hz": ((0, 0, -1, 0, 0), Fr(1), 0), "1/s": ((0, 0, -1, 0, 0), Fr(1), 0), "s-1": ((0, 0, -1, 0, 0), Fr(1), 0),
    "m/s": ((1, 0, -1, 0, 0), Fr(1), 0), "m s-1": ((1, 0, -1, 0, 0), Fr(1), 0), "km/h": ((1, 0, -1, 0, 0), Fr(1000, 3600), 0), "mm/d": ((1, 0, -1, 0, 0), Fr(1, 1000 * 86400), 0), "mm d-1": ((1, 0, -1, 0, 0), Fr(1, 1000 * 86400), 0),
    "mm/day": ((1, 0, -1, 0, 0), Fr(1, 1000 * 86400), 0), "mm/h": ((1, 0, -1, 0, 0), Fr(1, 1000 * 3600), 0), "mm h-1": ((1, 0, -1, 0, 0), Fr(1, 1000 * 3600), 0), "cm/h": ((1, 0, -1, 0, 0), Fr(1, 100 * 3600), 0), "mm/s": ((1, 0, -1, 0, 0), Fr(1, 1000), 0),
    "m/s2": ((1, 0, -2, 0, 0), Fr(1), 0),
    "m3/s": ((3, 0, -1, 0, 0), Fr(1), 0), "m3 s-1": ((3, 0, -1, 0, 0), Fr(1), 0), "L/s": ((3, 0, -1, 0, 0), Fr(1, 1000), 0),
    "kg": ((0, 1, 0, 0, 0), Fr(1), 0), "g": ((0, 1, 0, 0, 0), Fr(1, 1000), 0), "t": ((0, 1, 0, 0, 0), Fr(1000), 0),
    "kg m-2 s-1": ((-2, 1, -1, 0, 0), Fr(1), 0), "kg/m2/s": ((-2, 1, -1, 0, 0), Fr(1), 0), "kg/m3": ((-3, 1, 0, 0, 0), Fr(1), 0), "g/cm3": ((-3, 1, 0, 0, 0), Fr(1000), 0), "Mg/ha": ((-2, 1, 0, 0, 0), Fr(1, 10), 0),
    "N": ((1, 1, -2, 0, 0), Fr(1), 0), "Pa": ((-1, 1, -2, 0, 0), Fr(1), 0), "hPa": ((-1, 1, -2, 0, 0), Fr(100), 0), "bar": ((-1, 1, -2, 0, 0), Fr(10**5), 0), "J": ((2, 1, -2, 0, 0), Fr(1), 0),
    "W": ((2, 1, -3, 0, 0), Fr(1), 0), "W m-2": ((0, 1, -3, 0, 0), Fr(1), 0), "W/m2": ((0, 1, -3, 0, 0), Fr(1), 0),
    "K": ((0, 0, 0, 1, 0), Fr(1), 0), "kelvin": ((0, 0, 0, 1, 0), Fr(1), 0), "degC": ((0, 0, 0, 1, 0), Fr(1), Fr(27315, 100)), "degree_Celsius": ((0, 0, 0, 1, 0), Fr(1), Fr(27315, 100)), "degF": ((0, 0, 0, 1, 0), Fr(5, 9), Fr(27315, 100) - Fr(5 * 32, 9)),
    "%": ((0, 0, 0, 0, 0), Fr(1, 100), 0), "percent": ((0, 0, 0, 0, 0), Fr(1, 100), 0), "1": ((0, 0, 0, 0, 0), Fr(1), 0), "": ((0, 0, 0, 0, 0), Fr(1), 0), "dimensionless": ((0, 0, 0, 0, 0), Fr(1), 0), "ppm": ((0, 0, 0, 0, 0), Fr(1, 10**6), 0),
    "rad": ((0, 0, 0, 0, 0), Fr(1), 0), "degree": ((0, 0, 0, 0, 0), PI180, 0), "degrees_north": ((0, 0, 0, 0, 0), PI180, 0), "degrees_east": ((0, 0, 0, 0, 0), PI180, 0),
    "L/m2": ((1, 0, 0, 0, 0), Fr(1, 1000), 0), "N/m2": ((-1, 1, -2, 0, 0), Fr(1), 0), "J/s": ((2, 1, -3, 0, 0), Fr(1), 0),  # equivalent to mm / Pa / W, spelled through other units
    "mol": ((0, 0, 0, 0, 1), Fr(1), 0), "umol/m2/s": ((-2, 0, -1, 0, 1), Fr(1, 10**6), 0),
}
NAMES = list(CAT)


def ref_compatible(a, b):
    return CAT[a][0] == CAT[b][0]


def ref_convert(v, a, b):
    fa, oa = CAT[a][1], CAT[a][2]
    fb, ob = CAT[b][1], CAT[b][2]
    return (float(v) * float(fa) + float(oa) - float(ob)) / float(fb)


def ref_equivalent(a, b):
    if not ref_compatible(a, b):
        return False
    return math.isclose(ref_convert(1.0, a, b), 1.0, rel_tol=1e-9)


def close(x, y):
    return math.isclose(float(x), float(y), rel_tol=1e-9, abs_tol=1e-9)


def q_compat(a, b):
    return bool(T.compatible_units(a, b))


def q_equiv(a, b):
    return bool(T.equivalent_units(a, b))


def q_convert(a, b, v):
    """to_units on a quantity; returns number or ('EXC', class)"""
    try:
        return float(T.to_units(U.Quantity(np.array([v]), a), b).magnitude[0])
    except Exception as e:  # noqa
        return ("EXC", type(e).__name__)


def q_prepare(a, b, v):
    """publishing data with foreign units a on a slot with units b"""
    try:
        d = T.prepare(U.Quantity(np.array([v]), a), fm.Info(time=T0, grid=fm.NoGrid(), units=b))
        return (float(d.magnitude.ravel()[0]), str(d.units))
    except Exception as e:  # noqa
        return ("EXC", type(e).__name__)


MGRID = None


def q_prepare_masked(a, b, v):
    """publishing an unmasked quantity in foreign units under an Info that fixes a mask"""
    g = fm.UniformGrid((3,))
    try:
        d = T.prepare(U.Quantity(np.array([v, v]), a), fm.Info(time=T0, grid=g, units=b, mask=np.array([False, True])))
        return (float(np.ma.getdata(d.magnitude).ravel()[0]), str(d.units))
    except Exception as e:  # noqa
        return ("EXC", type(e).__name__)


def judge_static_link(a, b):
    """a static link: the second and third pull must serve the converted value as well"""
    out = fm.Output("o", fm.Info(time=None, grid=fm.NoGrid(), units=a), static=True)
    inp = fm.Input("i", fm.Info(time=None, grid=fm.NoGrid(), units=b), static=True)
    out >> inp
    inp.ping()
    inp.exchange_info()
    out.push_data(np.array(-2.5), None)
    want = ref_convert(-2.5, a, b)
    for k in range(3):
        d = inp.pull_data(None)
        if not close(float(d.magnitude.ravel()[0]), want) or d.units != U.Unit(b or "dimensionless"):
            return [("static_link_value", f"pull {k}: -2.5 {a} -> {b}: got {d}, reference {want}")]
    return []


def judge_pair(a, b, regime):
    """all helper answers for the ordered pair (a, b) against the reference"""
    bad = []
    comp, eq = ref_compatible(a, b), ref_equivalent(a, b)
    if q_compat(a, b) != comp:
        bad.append(("compatible_units", f"{not comp} but dimensions {'equal' if comp else 'differ'}"))
    if q_equiv(a, b) != eq:
        bad.append(("equivalent_units", f"{not eq}, reference factor {ref_convert(1.0, a, b) if comp else None}"))
    for v in (0.0, 1.0, -2.5):
        r = q_convert(a, b, v)
        p = q_prepare(a, b, v)
        if comp:
            want = ref_convert(v, a, b)
            if isinstance(r, tuple) or not close(r, want):
                bad.append(("to_units_value", f"{v} {a} -> {b}: got {r}, reference {want}"))
            if isinstance(p[0], str) or not close(p[0], want):
                bad.append(("prepare_value", f"{v} {a} -> {b}: got {p}, reference {want}"))
            elif U.Unit(p[1]) != U.Unit(b or "dimensionless") and not (eq and U.Unit(p[1]) == U.Unit(a or "dimensionless")):
                # (data published in an equivalent unit may keep its label until it crosses the link, where it is relabelled)
                bad.append(("prepare_units", f"{p[1]} != {b}"))
            if v == 1.0:
                # integer-typed data must be converted, not truncated back to integers
                try:
                    ri = T.to_units(U.Quantity(np.array([1500, 250], dtype=np.int64), a), b).magnitude
                    if not (close(ri[0], ref_convert(1500, a, b)) and close(ri[1], ref_convert(250, a, b))):
                        bad.append(("to_units_integer_data", f"[1500 250] {a} -> {b}: got {ri.tolist()}, reference {[ref_convert(1500, a, b), ref_convert(250, a, b)]}"))
                except Exception as e:  # noqa
                    bad.append(("to_units_integer_data", f"{type(e).__name__}"))
            pmk = q_prepare_masked(a, b, v)
            if isinstance(pmk[0], str) or not close(pmk[0], want):
                bad.append(("prepare_value_under_fixed_mask", f"{v} {a} -> {b}: got {pmk}, reference {want}"))
            if eq:  # relabelling is what to_units does when asked to look for equivalence (as links and prepare ask it to); without that flag it converts arithmetically
                try:
                    rr = float(T.to_units(U.Quantity(np.array([v]), a), b, check_equivalent=True).magnitude[0])
                except Exception as e:  # noqa
                    rr = ("EXC", type(e).__name__)
                if rr != v:
                    bad.append(("equivalent_relabel_changed_numbers", f"{v} {a} -> {b}: {rr!r}"))
        else:
            if not isinstance(r, tuple):
                bad.append(("to_units_accepts_incompatible", f"{v} {a} -> {b} = {r}"))
            if not (isinstance(p[0], str) and p[1] in ("FinamDataError", "FinamMetaDataError")):
                bad.append(("prepare_incompatible_not_refused_with_data_error", f"{a} -> {b}: {p}"))
    return bad


def judge_link(a, b):
    bad = []
    out = fm.Output("o", fm.Info(time=T0, grid=fm.NoGrid(), units=a))
    inp = fm.Input("i", fm.Info(time=T0, grid=fm.NoGrid(), units=b))
    out >> inp
    inp.ping()
    comp = ref_compatible(a, b)
    try:
        inp.exchange_info()
    except E.FinamMetaDataError:
        if comp:
            bad.append(("link_refused_compatible_units", f"{a} -> {b}"))
        return bad
    except Exception as e:  # noqa
        bad.append(("link_exchange_exception", f"{a} -> {b}: {type(e).__name__}"))
        return bad
    if not comp:
        bad.append(("link_accepts_incompatible_units", f"{a} -> {b}"))
        return bad
    bad += judge_static_link(a, b)
    for k, v in enumerate((0.0, 1.0, -2.5)):
        out.push_data(np.array(v), T0 + H(k))
        d = inp.pull_data(T0 + H(k))
        want = ref_convert(v, a, b)
        if not close(float(d.magnitude.ravel()[0]), want) or d.units != U.Unit(b or "dimensionless"):
            bad.append(("link_value", f"{v} {a} -> {b}: got {d}, reference {want}"))
            break
    return bad


SUB = ["m", "km", "s", "degC", "K", "%"]
SUB2 = ["mm", "L/m2", "Hz", "1/s"]  # pairs that are equivalent without being the same unit object, and a conversion between them
FUNCS = ("c", "e", "t")
FUNCS2 = ("c", "e", "t", "p")


def answer(q):
    f, a, b = q
    if f == "c":
        return q_compat(a, b)
    if f == "e":
        return q_equiv(a, b)
    if f == "p":
        r = q_prepare(a, b, 1.0)
        return ("EXC", r[1]) if r[0] == "EXC" else round(r[0], 9)
    r = q_convert(a, b, 1.0)
    return r if isinstance(r, tuple) else round(r, 9)


def ref_answer(q):
    f, a, b = q
    if f == "c":
        return ref_compatible(a, b)
    if f == "e":
        return ref_equivalent(a, b)
    return round(ref_convert(1.0, a, b), 9) if ref_compatible(a, b) else "EXC"


def run_case(case):
    res = dict(n=0, nontrivial=0, counters={}, violations=[])
    if case["kind"] == "pairs":
        regime = case["regime"]
        if regime == "warm":
            T.clear_units_cache()
            for a in NAMES:
                for b in NAMES:
                    T.compatible_units(a, b)
        for a, b in case["pairs"]:
            if regime == "cold":
                T.clear_units_cache()
            elif regime == "reversed_first":
                T.clear_units_cache()
                T.compatible_units(b, a)
                T.equivalent_units(b, a)
            res["n"] += 1
            res["nontrivial"] += 1 if a != b else 0
            for clause, detail in judge_pair(a, b, regime):
                res["violations"].append(viol(dict(kind="units", clause=clause), f"[{regime}] ({a!r}, {b!r}): {clause}: {detail}", dict(kind="pairs", regime=regime, pairs=[[a, b]])))
            if regime == "cold":
                for clause, detail in judge_link(a, b):
                    res["violations"].append(viol(dict(kind="units", clause=clause), f"link ({a!r} -> {b!r}): {clause}: {detail}", dict(kind="pairs", regime=regime, pairs=[[a, b]])))
        res["sample"] = dict(regime=regime, pair=case["pairs"][0])
    else:
        qs = [(f, a, b) for f in FUNCS for a in SUB for b in SUB] if not case.get("sub2") else [(f, a, b) for f in FUNCS2 for a in SUB2 for b in SUB2]
        for first in case["firsts"]:
            rest = [()] + [(q,) for q in qs] + ([(q1, q2) for q1 in qs for q2 in qs] if case["depth"] >= 3 else [])
            for tail in rest:
                seq = (tuple(first),) + tail
                T.clear_units_cache()
                res["n"] += 1
                res["nontrivial"] += 1 if len(seq) > 1 else 0
                for i, q in enumerate(seq):
                    if len(q) == 4:  # history only: a query outside the catalogue (temperature differences), its own answer is not judged
                        try:
                            answer(tuple(q[:3]))
                        except Exception:  # noqa
                            pass
                        continue
                    got, want = answer(q), ref_answer(q)
                    ok = (isinstance(got, tuple) and want == "EXC") or got == want
                    if not ok:
                        res["violations"].append(viol(dict(kind="units_history", func=q[0]), f"query {q} answered {got} (reference {want}) after {seq[:i]}", dict(kind="seqs", depth=case["depth"], firsts=[list(first)], only=[list(x) for x in seq], sub2=case.get("sub2"))))
                        break
        res["sample"] = dict(kind="sequence", first=case["firsts"][0], depth=case["depth"])
    return res


def replay(case):
    if case["kind"] == "seqs" and case.get("only"):
        T.clear_units_cache()
        out = []
        seq = [tuple(x) for x in case["only"]]
        for i, q in enumerate(seq):
            if len(q) == 4:
                try:
                    answer(tuple(q[:3]))
                except Exception:  # noqa
                    pass
                continue
            got, want = answer(q), ref_answer(q)
            if not ((isinstance(got, tuple) and want == "EXC") or got == want):
                out.append(viol(dict(kind="units_history", func=q[0]), f"query {q} answered {got} (reference {want}) after {seq[:i]}", case))
                break
        return out
    return run_case(case)["violations"]


def run(tier, seed, agg):
    pairs = [[a, b] for a in NAMES for b in NAMES]
    cases = []
    for regime in ("cold", "reversed_first", "warm"):
        for i in range(0, len(pairs), 150):
            cases.append(dict(kind="pairs", regime=regime, pairs=pairs[i : i + 150]))
    qs = [[f, a, b] for f in FUNCS for a in SUB for b in SUB]
    depth = 3
    sub = qs if tier == "thorough" else [q for q in qs if q[1] != q[2]]
    for q in sub:
        cases.append(dict(kind="seqs", depth=depth, firsts=[q]))
    for q in [[f, a, b] for f in FUNCS2 for a in SUB2 for b in SUB2]:
        cases.append(dict(kind="seqs", depth=depth, firsts=[q], sub2=True))
    # histories that start with a query outside the catalogue which the unit library refuses although the dimensions agree
    # (a temperature against a temperature difference): only the later answers are judged
    for f in FUNCS:
        for a, b in (("degC", "delta_degC"), ("delta_degC", "degC"), ("degF", "delta_degF"), ("delta_degC", "K")):
            cases.append(dict(kind="seqs", depth=depth, firsts=[[f, a, b, "history_only"]]))
    k = seed % len(cases)
    for r in pmap(run_case, cases[k:] + cases[:k]):
        agg.add(r)
    return dict(
        level="exploration",
        rule=f"all {len(NAMES)}^2 ordered unit pairs of a hand-written catalogue (exponent vector, exact factor, offset; no pint in the reference) under three memo regimes (cold, after the reversed pair, warm after a full sweep): "
        "compatible_units, equivalent_units, to_units and prepare for values {0,1,-2.5}, plus a real Output->Input link for every pair; and ALL query sequences of length <=3 over a 6-unit sub-catalogue x {compatible, equivalent, to_units} "
        "from a cold memo, and over {mm, L/m2, Hz, 1/s} (equivalent units spelled differently) x {compatible, equivalent, to_units, prepare}. non-trivial = pairs of different spellings / sequences longer than one query",
        bound=dict(catalogue=len(NAMES), sequence_len=3, sub_catalogue=SUB),
        assumptions=["relative tolerance 1e-9 on converted numbers; equivalent units must relabel bit-identically", "angles are dimensionless (SI)", "the bare helper to_units may raise any exception for incompatible units; prepare and links must raise FinamDataError/FinamMetaDataError"],
    )
