"""C06 - iterative connect converges or reports exactly the stuck components (engine B)."""
import itertools

import numpy as np

from core.common import T0, H, fm, hrs
from core.pool import pmap
from core.runner import viol
from harness import chelper, cnode

from finam.interfaces import ComponentStatus as CS


def judge(specs, links, order, link_order, cache=True, variant=None):
    F, stuck = cnode.fixpoint(specs, links)
    out, comps = cnode.run_connect(specs, links, order, link_order, cache, variant)
    bad = []
    sp = {s[0]: s for s in specs}
    t_start = min(s[3] for s in specs)
    published = {(n, o): v for n, c in comps.items() for o, v in c.published.items()}
    if out[0] == "hang":
        bad.append(("connect_does_not_terminate", f"more than {cnode.World.cap} component connect calls"))
    elif out[0] == "exc":
        bad.append(("unexpected_exception:" + out[1], out[2]))
    elif stuck:
        if out[0] != "circular":
            bad.append(("stuck_but_no_circular_error", f"reference: {stuck} cannot complete, connect() returned normally"))
        elif out[1] != stuck:
            bad.append(("wrong_component_list", f"error lists {out[1]}, reference {stuck}"))
    else:
        if out[0] != "ok":
            bad.append(("derivable_but_circular_error", f"everything is derivable but connect() reported {out[1]}"))
        else:
            for n, c in comps.items():
                if c.status != CS.VALIDATED:
                    bad.append(("status_after_connect", f"{n} {c.status.name}"))
                for i, _m in sp[n][1]:
                    info = c.connector.in_infos.get(i)
                    if info is None or c.inputs[i].info is None or c.inputs[i].info.grid is None or c.inputs[i].info.units is None or c.inputs[i].info.time is None:
                        bad.append(("input_info_incomplete", f"{n}.{i}"))
                    else:
                        src = next(l[0] for l in links if l[1] == (n, i))
                        smeta = comps[src[0]].outputs[src[1]].info.meta
                        own = {"owner": n, "_FillValue": -float(ord(n[0]))} if _m == "decl_tag" else {}
                        for k, v in c.inputs[i].info.meta.items():
                            if k in own:  # metadata the consumer declared itself (the order-independence of what happens to it is C05's business)
                                continue
                            if k not in smeta or smeta[k] != v:
                                bad.append(("input_info_differs_from_exchanged", f"{n}.{i} has {k}={v!r}, source {src} has {smeta.get(k)!r}"))
                    d = c.connector.in_data.get(i)
                    want = cnode.expected_value(specs, links, n, i, None, published)
                    if d is None or not np.isclose(float(d.magnitude.ravel()[0]), want):
                        bad.append(("initial_pull_value", f"{n}.{i} got {None if d is None else float(d.magnitude.ravel()[0])} want {want}"))
                for o, _im, _dm in sp[n][2]:
                    times = sorted(float(hrs(t)) for t, _ in c.outputs[o].data)
                    need = sorted({float(t_start), float(sp[n][3])})
                    if not c.outputs[o].has_targets:
                        continue
                    if not all(x in times for x in need):
                        bad.append(("initial_publication_times", f"{n}.{o} published at {times}, needed {need}"))
                    if _dm == "refine":  # everything the output holds after connect is the value of the call that published it
                        held = sorted({float(d.magnitude.ravel()[0]) for _t, d in c.outputs[o].data})
                        if held != [published.get((n, o))]:
                            bad.append(("initial_publication_is_not_the_value_handed_in_last", f"{n}.{o} holds {held}, the publishing call handed in {published.get((n, o))}"))
    for x in cnode.World.early[:1]:
        bad.append(("connected_while_consumer_exchange_outstanding", f"{x[0]} reported CONNECTED although {x[2]}.{x[3]} had not exchanged its metadata with {x[0]}.{x[1]}"))
    # per-call status rule (every connect call of every component)
    ncalls = 0
    for n, c in comps.items():
        for k, (status, changed, done) in enumerate(c.status_log):
            ncalls += 1
            want = "CONNECTED" if done else ("CONNECTING" if changed else "CONNECTING_IDLE")
            if status != want:
                bad.append(("per_call_status", f"{n} call {k}: status {status}, reference {want} (something exchanged: {changed}, all done: {done})"))
                break
    return bad, out, stuck, ncalls


def run_helper(case):
    cfg = case["cfg"]
    if case.get("path") is not None:
        vs = chelper.run_path(cfg, case["path"])
        return dict(n=1, violations=[viol(fp, what, dict(kind="helper", cfg=cfg, path=p)) for _c, fp, what, p in vs])
    try:
        r = chelper.explore(cfg)
    except Exception as e:  # noqa - the harness itself only makes legal calls: an exception escaping here comes from the library (e.g. while initializing)
        return dict(n=1, violations=[viol(dict(kind="helper", clause="exception_outside_connect", error=type(e).__name__), f"helper layer {cfg}: {type(e).__name__}: {str(e)[:150]}", dict(kind="helper", cfg=cfg))])
    res = dict(n=1, states=r["states"], transitions=r["transitions"], traces=r["quiescent"], nontrivial=1, counters={"helper_connect_calls": r["calls"], "helper_quiescent_states": r["quiescent"]}, violations=[])
    if r.get("capped"):
        res["capped"] = dict(cfg=cfg)
    for _c, fp, what, p in r["violations"]:
        res["violations"].append(viol(fp, f"helper layer {cfg}: {what}", dict(kind="helper", cfg=cfg, path=p)))
    res["sample"] = dict(kind="helper", cfg=cfg, states=r["states"], transitions=r["transitions"])
    return res


def run_masked_start(case):
    """a producer that starts later than the composition publishes its initial data twice: both publications must be the producer's
    initial value - for masked payloads including the mask"""
    from core.common import compose

    start, form = case["start"], case["form"]
    grid = fm.UniformGrid((3, 4))
    mask = np.array([[False, True, False], [False, False, True]])
    base = np.arange(6.0).reshape(2, 3) + 1.0
    init = {"masked": np.ma.array(base, mask=mask, fill_value=-9999.0), "plain": base, "quantity_masked": fm.UNITS.Quantity(np.ma.array(base, mask=mask), "m")}[form]

    class P(fm.TimeComponent):
        def __init__(self):
            super().__init__()
            self._time = T0 + H(start)

        def _next_time(self):
            return self.time + H(1)

        def _initialize(self):
            self.outputs.add(name="o", time=self.time, grid=grid, units="m")
            self.create_connector()

        def _connect(self, st):
            self.try_connect(st, push_data={"o": init})

        def _validate(self):
            pass

        def _update(self):
            self._time += H(1)

        def _finalize(self):
            pass

    class Cn(fm.TimeComponent):
        def __init__(self):
            super().__init__()
            self._time = T0

        def _next_time(self):
            return self.time + H(1)

        def _initialize(self):
            self.inputs.add(name="i", time=self.time, grid=None, units=None)
            self.create_connector(pull_data=["i"])

        def _connect(self, st):
            self.try_connect(st)

        def _validate(self):
            pass

        def _update(self):
            self._time += H(1)

        def _finalize(self):
            pass

    p, c = P(), Cn()
    comp = compose([p, c] if case["order"] == "PC" else [c, p])
    p.outputs["o"] >> c.inputs["i"]
    res = dict(n=1, states=2, transitions=1, traces=1, nontrivial=1 if start else 0, counters={"masked_start": 1}, violations=[])
    try:
        comp.connect()
    except Exception as e:  # noqa
        res["violations"].append(viol(dict(kind="connect", clause="unexpected_exception", error=type(e).__name__), f"masked initial data, start offset {start}: {type(e).__name__}: {e}", case))
        return res
    times = [float(hrs(t)) for t, _ in p.outputs["o"].data]
    if sorted(times) != sorted({0.0, float(start)}):
        res["violations"].append(viol(dict(kind="connect", clause="initial_publication_times", error=None), f"published at {times}", case))
    for t, d in p.outputs["o"].data:
        m = d.magnitude
        want_masked = form != "plain"
        ok = np.allclose(np.ma.getdata(m)[0][~mask], base[~mask]) and (not want_masked or (np.ma.isMaskedArray(m) and np.array_equal(np.ma.getmaskarray(m)[0], mask)))
        if not ok:
            res["violations"].append(viol(dict(kind="connect", clause="initial_publication_is_not_the_initial_value", error=None), f"publication for {float(hrs(t))} h: {type(m).__name__} mask={np.ma.getmaskarray(m).tolist()}", case))
    res["sample"] = dict(case)
    return res


PRELUDE = ([("S", [], [("o", "decl", "const")], 0), ("P", [("i", "decl")], [("o", "from_in:i", "pull:i")], 0), ("T", [("i", "decl")], [], 0)], [(("S", "o"), ("P", "i")), (("P", "o"), ("T", "i"))], ["S", "P", "T"], [0, 1])


def run_case(case):
    try:
        return _run_case(case)
    except Exception as e:  # noqa - the harness only makes legal calls: an exception that escapes a work item comes from the library (e.g. while a component is initialized)
        import traceback

        where = traceback.extract_tb(e.__traceback__)[-1]
        short = {k: v for k, v in case.items() if k != "shapes"}
        return dict(n=1, violations=[viol(dict(kind="connect", clause="exception_outside_connect", error=type(e).__name__), f"work item {short}: {type(e).__name__}: {str(e)[:150]} (raised in {where.filename.split('/')[-1]}:{where.name})", case)])


def _run_case(case):
    if case.get("kind") == "helper":
        return run_helper(case)
    if case.get("kind") == "masked_start":
        return run_masked_start(case)
    res = dict(n=0, states=0, transitions=0, traces=0, nontrivial=0, counters={}, violations=[])
    cnt = res["counters"]
    for specs, links in case["shapes"]:
        specs = [(s[0], [tuple(x) for x in s[1]], [tuple(x) for x in s[2]], s[3]) for s in specs]
        links = [((l[0][0], l[0][1]), (l[1][0], l[1][1])) + tuple(l[2:]) for l in links]
        names = [s[0] for s in specs]
        orders = [case["order"]] if case.get("order") else list(itertools.permutations(names))
        if case.get("link_order"):
            lorders = [case["link_order"]]
        elif len(links) > 3 or (case.get("lo_mode") == "two" and len(specs) > 2):
            lorders = sorted({tuple(range(len(links))), tuple(reversed(range(len(links))))})
        else:
            lorders = list(itertools.permutations(range(len(links))))
        for order in orders:
            for lo in lorders:
                r0 = cnode.World.refusals
                if case.get("variant") == "late_rules":
                    # process-wide state must not leak between compositions: every composition of this family runs after a fixed first composition
                    # (a relay whose transfer rules were added late) in the same process; the replay of a finding repeats exactly this history
                    cnode.run_connect(*PRELUDE, True, "late_rules")
                bad, out, stuck, ncalls = judge(specs, links, list(order), list(lo), case.get("cache", True), case.get("variant"))
                if case.get("variant"):
                    cnt["variant_" + case["variant"]] = cnt.get("variant_" + case["variant"], 0) + 1
                    cnt["refused_initial_publications"] = cnt.get("refused_initial_publications", 0) + cnode.World.refusals - r0
                res["n"] += 1
                res["traces"] += 1
                res["transitions"] += ncalls
                res["states"] += ncalls + 1
                cnt["outcome_" + out[0]] = cnt.get("outcome_" + out[0], 0) + 1
                if stuck:
                    cnt["expected_stuck"] = cnt.get("expected_stuck", 0) + 1
                res["nontrivial"] += 1 if ncalls > 2 * len(specs) else 0
                for clause, detail in bad:
                    res["violations"].append(viol(dict(kind="connect", clause=clause.split(":")[0], error=clause.split(":")[1] if ":" in clause else None), f"specs={specs} links={links} order={order} link_order={lo}: {clause}: {detail}", dict(shapes=[[specs, links]], order=list(order), link_order=list(lo), cache=case.get("cache", True), variant=case.get("variant"))))
    res["sample"] = dict(specs=case["shapes"][0][0], links=case["shapes"][0][1])
    return res


def replay(case):
    return run_case(case)["violations"]


def single_slot_shapes(n, offsets, max_ext=99):
    names = [chr(65 + k) for k in range(n)]
    per = []
    for in_mode in (None, "decl", "arg", "from_out:o"):
        for outm in (None, ("decl", "const"), ("decl", "pull:i"), ("from_in:i", "const"), ("from_in:i", "pull:i"), ("arg", "const"), ("open", "const"), ("open", "pull:i")):
            if outm and ("i" in outm[0].split(":")[-1:] or "pull" in outm[1]) and not in_mode:
                continue
            if in_mode == "from_out:o" and (not outm or outm[0].startswith("from_in")):
                continue  # (input info from own output) needs an output whose info does not come from that input
            if not in_mode and not outm:
                continue
            per.append((in_mode, outm))
    def ext(c):
        return (c[0] in ("arg", "from_out:o")) or (c[1] is not None and c[1][0] in ("arg", "open"))

    for combo in itertools.product(per, repeat=n):
        if sum(1 for c in combo if ext(c)) > max_ext:
            continue
        srcs = [k for k in range(n) if combo[k][1]]
        ins = [k for k in range(n) if combo[k][0]]
        if not srcs and ins:
            continue
        for assign in itertools.product(srcs, repeat=len(ins)):
            if any(a == i for a, i in zip(assign, ins)):
                continue
            # an 'open' output needs a consumer that declares its info
            ok = True
            for a, i in zip(assign, ins):
                if combo[a][1][0] == "open" and combo[i][0] == "from_out:o":
                    ok = False
            if not ok:
                continue
            for offs in offsets(n):
                specs = [(names[k], [("i", combo[k][0])] if combo[k][0] else [], [("o",) + combo[k][1]] if combo[k][1] else [], offs[k]) for k in range(n)]
                links = [((names[a], "o"), (names[i], "i")) for a, i in zip(assign, ins)]
                yield specs, links


def refine_shapes(three=True):
    """producers whose initial state is still improving while they wait: every connect call hands in a newer value, the value of the
    call that publishes is the one every consumer must see (a value waiting in the connector's cache is overwritten)"""
    def sub(specs, which):
        return [(s[0], s[1], [(o[0], o[1], "refine" if (o[2] == "const" and (s[0], o[0]) in which) else o[2]) for o in s[2]], s[3]) for s in specs]

    gens = [single_slot_shapes(2, lambda n: [(0, 0), (0, 1), (1, 0), (2, 0)]), trunk_shapes(), staged_shapes(), tagged_shapes()]
    if three:
        gens.append(single_slot_shapes(3, lambda n: [(0, 0, 0), (1, 0, 0)], max_ext=1))
    for gen in gens:
        for specs, links in gen:
            consts = [(s[0], o[0]) for s in specs for o in s[2] if o[2] == "const"]
            consts = [c for c in consts if any(l[0] == c for l in links)]
            if not consts:
                continue
            yield sub(specs, set(consts)), links
            if len(consts) > 1:
                yield sub(specs, {consts[0]}), links


def two_slot_shapes():
    """producer X with two outputs, consumer Y with two inputs (all slot declaration orders), optional feedback Y.o -> X.i and a third party"""
    for oa, ob in itertools.product(("decl", "open", "arg"), repeat=2):
        for da, db in itertools.product(("const", "pull:i"), repeat=2):
            for ia, ib in itertools.product(("decl", "arg", "after_pull:iB", "after_pull:iA"), repeat=2):
                if ia == "after_pull:iA" or ib == "after_pull:iB":
                    continue
                if (oa == "open" and not ia.startswith(("decl", "arg", "after"))) or (ob == "open" and not ib.startswith(("decl", "arg", "after"))):
                    continue
                feedback = "pull" in da or "pull" in db
                for ymode in ((("decl", "const"), ("decl", "pull:iA"), ("decl", "pull:iB")) if feedback else (None,)):
                    for swap_o, swap_i in itertools.product((False, True), repeat=2):
                        outs = [("oA", oa, da), ("oB", ob, db)]
                        ins = [("iA", ia), ("iB", ib)]
                        if swap_o:
                            outs.reverse()
                        if swap_i:
                            ins.reverse()
                        X = ("X", [("i", "decl")] if feedback else [], outs, 0)
                        Y = ("Y", ins, [("o",) + ymode] if ymode else [], 0)
                        links = [(("X", "oA"), ("Y", "iA")), (("X", "oB"), ("Y", "iB"))]
                        if feedback:
                            links.append((("Y", "o"), ("X", "i")))
                        yield [X, Y], links


def trunk_shapes():
    """one producer output, a pass-through adapter shared by two consumers (one target at the output, two registered end points)"""
    for om in ("decl", "arg", "open"):
        for ia, ib in itertools.product(("decl", "arg"), repeat=2):
            for offs in ((0, 0, 0), (1, 0, 0), (0, 0, 2)):
                for extra in (False, True):
                    X = ("X", [], [("o", om, "const")], offs[0])
                    Y = ("Y", [("i", ia)], [], offs[1])
                    Z = ("Z", [("i", ib)], [("o", "decl", "pull:i")] if extra else [], offs[2])
                    specs = [X, Y, Z]
                    links = [(("X", "o"), ("Y", "i"), "t"), (("X", "o"), ("Z", "i"), "t")]
                    if extra:
                        specs.append(("W", [("i", "decl")], [], 0))
                        links.append((("Z", "o"), ("W", "i")))
                    yield specs, links


def tagged_shapes():
    """fan-out to consumers that carry extra metadata of their own (direct and behind a shared pass-through adapter)"""
    for om in ("decl", "open", "arg"):
        for ia, ib in (("decl_tag", "decl_tag"), ("decl_tag", "decl"), ("decl", "decl_tag")):
            for trunk in (False, True):
                for third in (False, True):
                    specs = [("X", [], [("o", om, "const")], 0), ("Y", [("i", ia)], [], 0), ("Z", [("i", ib)], [], 0)]
                    links = [(("X", "o"), ("Y", "i")) + (("t",) if trunk else ()), (("X", "o"), ("Z", "i")) + (("t",) if trunk else ())]
                    if third:
                        specs.append(("W", [("i", "decl_tag")], [], 0))
                        links.append((("X", "o"), ("W", "i")))
                    yield specs, links


def staged_shapes():
    """two-stage feedback: source -> staged -> partner -> staged (second input), where the staged component can push its initial data
    late (only after one input was pulled) while it still waits for the other input"""
    for dm in ("pull:i", "pull:i,j", "const"):
        for pm in (("decl", "pull:i"), ("from_in:i", "pull:i")):
            for jm in ("decl", "arg"):
                S = ("S", [], [("o", "decl", "const")], 0)
                G = ("G", [("i", "decl"), ("j", jm)], [("o", "decl", dm)], 0)
                P = ("P", [("i", "decl")], [("o",) + pm], 0)
                yield [S, G, P], [(("S", "o"), ("G", "i")), (("G", "o"), ("P", "i")), (("P", "o"), ("G", "j"))]


def big_ring_shapes():
    """rings of 5-7 components that are all stuck (every initial value is computed from the predecessor's), plus a free pair and a victim
    downstream of the ring: the error has to name every stuck component, however many"""
    for n in (5, 6, 7):
        names = [chr(65 + k) for k in range(n)]
        specs = [(nm, [("i", "decl")], [("o", "decl", "pull:i")], 0) for nm in names]
        links = [((names[k], "o"), (names[(k + 1) % n], "i")) for k in range(n)]
        specs += [("V", [("i", "decl")], [], 0), ("S", [], [("o", "decl", "const")], 0), ("T", [("i", "decl")], [], 0)]
        links += [((names[0], "o"), ("V", "i")), (("S", "o"), ("T", "i"))]
        yield specs, links


def stuck_plus_arg_shapes():
    """a genuinely stuck pair (mutual initial pulls) next to components that hand in their infos on every call"""
    for src_mode in ("decl", "arg", "open"):
        for in_mode in ("decl", "arg"):
            for offs in ((0, 0, 0, 0), (1, 0, 0, 2)):
                S = ("S", [], [("o", src_mode, "const")], offs[0])
                Y = ("Y", [("i", in_mode), ("j", "decl")], [("o", "decl", "pull:j")], offs[1])
                Z = ("Z", [("i", "decl")], [("o", "decl", "pull:i")], offs[2])
                yield [S, Y, Z], [(("S", "o"), ("Y", "i")), (("Z", "o"), ("Y", "j")), (("Y", "o"), ("Z", "i"))]
                T = ("T", [("i", "arg")], [], offs[3])
                yield [S, Y, Z, T], [(("S", "o"), ("Y", "i")), (("Z", "o"), ("Y", "j")), (("Y", "o"), ("Z", "i")), (("S", "o"), ("T", "i"))]


def run(tier, seed, agg):
    q = tier == "quick"
    shapes = []
    shapes += list(single_slot_shapes(2, lambda n: [(0, 0), (0, 1), (1, 0), (2, 0), (0, 2)]))
    shapes += list(single_slot_shapes(3, lambda n: [(0, 0, 0)] if q else [(0, 0, 0), (1, 0, 2)], max_ext=1 if q else 99))
    shapes += list(two_slot_shapes())
    shapes += list(stuck_plus_arg_shapes())
    shapes += list(trunk_shapes())
    shapes += list(staged_shapes())
    shapes += list(tagged_shapes())
    shapes += list(refine_shapes(three=not q))
    cases = [dict(shapes=shapes[i : i + 40], lo_mode="two" if q else "all") for i in range(0, len(shapes), 40)]
    # the same with ConnectHelper(cache=False): the harness components hand in everything they can on every call, so nothing may depend on the cache
    nocache = list(single_slot_shapes(2, lambda n: [(0, 0), (1, 0)])) + list(two_slot_shapes()) + list(stuck_plus_arg_shapes())
    cases += [dict(shapes=nocache[i : i + 40], lo_mode="two" if q else "all", cache=False) for i in range(0, len(nocache), 40)]
    # transfer rules added after the connector was created; initial data refused once (wrong units) and handed in again
    small = list(single_slot_shapes(2, lambda n: [(0, 0), (1, 0)])) + list(staged_shapes()) + list(trunk_shapes()) + ([] if q else list(two_slot_shapes()))
    cases += [dict(shapes=small[i : i + 40], lo_mode="two" if q else "all", variant="fault") for i in range(0, len(small), 40)]
    late = [dict(shapes=small[i : i + 40], lo_mode="two" if q else "all", variant="late_rules") for i in range(0, len(small), 40)]
    big = list(big_ring_shapes())
    for sh in big:
        n = len(sh[0])
        names = [x[0] for x in sh[0]]
        for order in (names, names[::-1], names[3:] + names[:3]):
            cases.append(dict(shapes=[sh], order=order, link_order=list(range(len(sh[1])))))
    for start in (0, 1, 2):
        for form in ("masked", "plain", "quantity_masked"):
            for order in ("PC", "CP"):
                cases.append(dict(kind="masked_start", start=start, form=form, order=order))
    # helper layer: one component, scripted peers, all sequences of connect calls / stepwise provided items / peer events
    for n_in in (0, 1, 2):
        for n_out in (0, 1, 2):
            if n_in + n_out == 0 or n_in + n_out > (3 if q else 4):
                continue
            for di in itertools.product((True, False), repeat=n_in):
                for do in itertools.product((True, False), repeat=n_out):
                    for start in (0, 1):
                        cases.append(dict(kind="helper", cfg=dict(n_in=n_in, n_out=n_out, declared_in=list(di), declared_out=list(do), start=start)))
    k = seed % len(cases)
    for r in pmap(run_case, cases[k:] + cases[:k]):
        agg.add(r)
    for r in pmap(run_case, late):  # in worker processes of its own (a fresh pool), see PRELUDE
        agg.add(r)
    return dict(
        level="model_checking",
        rule="every dependency shape of metadata/initial-data exchange over <=3 single-slot components (info declared / given per call / from own output / from input / open-from-target; data constant / from pulled inputs; start offsets), "
        "all two-output x two-input shapes with every slot declaration order and feedback, and stuck cycles next to per-call info providers, each executed through the real Composition.connect under ALL listing orders x ALL link creation orders (quick: identity and reversed link order for 3 components); "
        "oracle: least fixpoint of derivable exchange items (success with complete infos, initial publications at composition start and own start, exact initial values; otherwise circular error listing exactly the stuck components), "
        "per-call status rule on every connect call, call cap for termination; the two- and three-component shapes again with transfer rules added after the connector was created (add_*_info_rule; each composition preceded, in the same process, by a first composition with such a relay) and with constant initial data "
        "that is refused once (handed in in a unit the output rejects, the component handles the error and hands in the valid value in the same call). Helper layer: ONE component (0-2 inputs, 0-2 outputs, infos declared or handed in later) with scripted peers, breadth-first search over ALL sequences of "
        "connect calls (each handing in at most one new item), peer info/data publications and peer exchanges, until quiescence; per-call status rule, done items stay done, every possible exchange happens in the call that makes it possible, final state CONNECTED with the peers' values and exactly the required initial publications. states/transitions = component connect calls observed; non-trivial = executions needing more than two calls per component",
        bound=dict(components="<=3 (+4 in the stuck family)", slots="<=2 per side", offsets="{0,1,2}"),
        assumptions=["the reference fixpoint model in harness/cnode.py", "observable exchange items are read from the public connector properties"],
    )
