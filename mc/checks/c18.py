"""C18 - masked data: compression round-trips and mask rules are as documented (engine D)."""
import itertools

import numpy as np

from core.common import T0, fm
from core.pool import pmap
from core.runner import viol

from checks.c14 import build, expected_locs
from checks.c15 import cfg_of, layouts, maskf

T = fm.data.tools
U = fm.UNITS
E = fm.errors
Mask = fm.Mask


def shapes(maxel):
    out = []
    for n in (1, 2, 3):
        for shp in itertools.product(range(1, maxel + 1), repeat=n):
            if int(np.prod(shp)) <= maxel:
                out.append(shp)
    return out


def check_roundtrip(shp, order, mbits, quant, form):
    n = int(np.prod(shp))
    vals = (np.arange(n, dtype=float) + 1.0).reshape(shp)  # C-order ramp: position identifies the element
    if mbits == "nomask":
        mask = np.ma.nomask
    else:
        mask = np.array([(mbits >> i) & 1 for i in range(n)], dtype=bool).reshape(shp)
    if form.startswith("reused:") and mask is not np.ma.nomask:
        # history: ONE mask array object that held another mask before (used for a round trip) and was updated in place (wetting/drying, snow cover)
        prev = int(form.split(":")[1])
        new = mask
        mask = np.array([(prev >> i) & 1 for i in range(n)], dtype=bool).reshape(shp)
        try:
            c0 = T.to_compressed(U.Quantity(vals.copy(), "m") if quant else vals.copy(), order=order, mask=mask)
            T.from_compressed(c0, shp, order=order, mask=mask)
        except Exception:  # noqa - the earlier use is history only
            pass
        mask[...] = new
        form = "external"
    mfull = np.zeros(shp, dtype=bool) if mask is np.ma.nomask else mask
    bad = []
    if form == "masked":
        x = np.ma.array(vals.copy(), mask=mask)
        xin = U.Quantity(x, "m") if quant else x
        c = T.to_compressed(xin, order=order)
    else:  # plain data plus external mask (also handed in as 0/1 integers, e.g. a land/sea raster)
        xin = U.Quantity(vals.copy(), "m") if quant else vals.copy()
        emask = mask
        if form.startswith("external_") and mask is not np.ma.nomask:
            emask = mask.astype({"external_i8": np.int8, "external_u8": np.uint8, "external_i64": np.int64}[form])
        c = T.to_compressed(xin, order=order, mask=emask)
    cm = c.magnitude if quant else c
    want = vals.ravel(order=order)[~mfull.ravel(order=order)]
    if quant and (not hasattr(c, "units") or str(c.units) not in ("m", "meter")):
        bad.append(("compressed_units", f"{getattr(c, 'units', None)}"))
    if np.shape(cm) != want.shape or not np.array_equal(np.asarray(cm), want):
        bad.append(("compressed_order_or_content", f"got {np.asarray(cm).tolist()} want {want.tolist()}"))
        return bad
    r = T.from_compressed(c, shp, order=order, mask=emask if form.startswith("external_") else mask)
    rm = r.magnitude if quant else r
    if np.shape(rm) != tuple(shp):
        bad.append(("expanded_shape", f"{np.shape(rm)}"))
        return bad
    if not np.array_equal(np.ma.getmaskarray(rm), mfull):
        bad.append(("expanded_mask", f"{np.ma.getmaskarray(rm).tolist()} != {mfull.tolist()}"))
    if not np.array_equal(np.ma.getdata(rm)[~mfull], vals[~mfull]):
        bad.append(("expanded_values", f"{np.ma.getdata(rm).tolist()} vs {vals.tolist()} mask {mfull.tolist()}"))
    if quant and str(getattr(r, "units", "")) not in ("m", "meter"):
        bad.append(("expanded_units", ""))
    return bad


def check_prepare(cfg, form):
    g = build(cfg)
    shape, ref = expected_locs(cfg)
    m = np.zeros(shape, dtype=bool)
    a = np.zeros(shape)
    for idx, coord in ref.items():
        m[idx] = maskf(coord)
        a[idx] = 1.0 + sum(c * (10**k) for k, c in enumerate(coord))
    info = fm.Info(time=T0, grid=g, units="m", mask=m)
    if form in ("ndarray_nan", "quantity_inf"):
        free = [idx for idx in ref if not m[idx]]
        if not free:
            return []
        a = a.copy()
        a[free[0]] = np.nan if form == "ndarray_nan" else np.inf
    m_before = m.copy()
    payload = {
        "ndarray_nan": a.copy(), "quantity_inf": U.Quantity(a.copy(), "m"),
        "ndarray": a.copy(), "list": a.tolist(), "flat": a.reshape(-1, order=g.order).copy(), "time_axis": a[np.newaxis, ...].copy(), "quantity": U.Quantity(a.copy(), "m"),
        "quantity_km": U.Quantity(a.copy() / 1000.0, "km"), "masked_same": np.ma.array(a.copy(), mask=m.copy()),
    }[form]
    try:
        d = T.prepare(payload, info)
    except Exception as e:  # noqa
        return [("exception", f"{type(e).__name__}: {str(e)[:80]}")]
    mag = d.magnitude
    bad = []
    if tuple(mag.shape) != (1,) + shape:
        return [("shape", f"{mag.shape}")]
    if not np.ma.isMaskedArray(mag) or not np.array_equal(np.ma.getmaskarray(mag)[0], m):
        bad.append(("prepared_mask_differs", f"{np.ma.getmaskarray(mag).tolist()} != {m.tolist()}"))
    if not np.allclose(np.ma.getdata(mag)[0][~m], a[~m], equal_nan=True):
        bad.append(("prepared_values", ""))
    if not np.array_equal(np.asarray(info.mask), m_before):
        bad.append(("info_mask_changed_by_prepare", ""))
    return bad


SPECS = ["FLEX", "NONE", "nomask", "allfalse", "M", "Mraw", "M2", "Msame"]


def mask_for(spec, cfg, other_cfg):
    """mask object for a slot whose grid has layout cfg; 'M' = the physical mask in this grid's own layout, 'Mraw' = the array
    of the OTHER side's layout used verbatim (same bits, other physical locations unless the layouts agree), 'M2' = a different physical mask"""
    shape, ref = expected_locs(cfg)
    if spec == "FLEX":
        return Mask.FLEX
    if spec == "NONE":
        return Mask.NONE
    if spec == "nomask":
        return np.ma.nomask
    if spec == "allfalse":
        return np.zeros(shape, dtype=bool)
    if spec in ("M", "M2"):
        m = np.zeros(shape, dtype=bool)
        for idx, coord in ref.items():
            m[idx] = maskf(coord) if spec == "M" else not maskf(coord)
        return m
    oshape, oref = expected_locs(other_cfg)
    m = np.zeros(oshape, dtype=bool)
    for idx, coord in oref.items():
        m[idx] = maskf(coord)
    return m if oshape == shape else None


def physical(mask, cfg):
    """set of masked physical coordinates"""
    shape, ref = expected_locs(cfg)
    if mask is np.ma.nomask:
        return frozenset()
    return frozenset(tuple(round(float(x), 9) for x in ref[idx]) for idx in ref if mask[idx])


def expected_accept(pspec, cspec, pm, cmk, pc, cc):
    """True / False / None (statement leaves it open)"""
    if cspec == "FLEX":
        return True
    if cspec == "NONE":
        if pspec == "NONE":
            return True
        if pspec in ("nomask", "allfalse"):
            return None  # explicit empty mask against an unmasked consumer: not classified by the statement
        return False
    # consumer states a fixed mask
    if pspec in ("FLEX", "NONE"):
        return False
    return physical(pm, pc) == physical(cmk, cc)


def check_accept(pc, cc, pspec, cspec):
    if pspec == "Msame":
        return None, []  # 'Msame' is a consumer-side spec: the consumer hands in the very same array OBJECT as the producer
    pm = mask_for(pspec, pc, cc)
    if cspec == "Msame":
        if not isinstance(pm, np.ndarray) or expected_locs(pc)[0] != expected_locs(cc)[0]:
            return None, []
        cmk = pm
        cspec = "Mraw"
    else:
        cmk = mask_for(cspec, cc, pc)
    if pm is None or cmk is None:
        return None, []
    want = expected_accept(pspec, cspec, pm, cmk, pc, cc)
    try:
        out = fm.Output("o", fm.Info(time=T0, grid=build(pc), units="m", mask=pm))
        inp = fm.Input("i", fm.Info(time=T0, grid=build(cc), units="m", mask=cmk))
    except Exception as e:  # noqa
        return want, [("info_construction", f"{type(e).__name__}: {str(e)[:80]}")]
    out >> inp
    inp.ping()
    try:
        inp.exchange_info()
        got = True
    except E.FinamMetaDataError:
        got = False
    except Exception as e:  # noqa
        return want, [("exchange_exception", f"{type(e).__name__}: {str(e)[:80]}")]
    # history: the report dictionary of an earlier, refused check is handed in again - the decision must not depend on what it holds
    try:
        report = {}
        fm.Info(time=T0, grid=build(cc), units="m", mask=fm.Mask.NONE).accepts(fm.Info(time=T0, grid=build(cc), units="s", mask=fm.Mask.NONE), report)
        a = fm.Info(time=T0, grid=build(cc), units="m", mask=cmk).accepts(fm.Info(time=T0, grid=build(pc), units="m", mask=pm), {})
        b = fm.Info(time=T0, grid=build(cc), units="m", mask=cmk).accepts(fm.Info(time=T0, grid=build(pc), units="m", mask=pm), report)
        if bool(a) != bool(b):
            return want, [("decision_depends_on_report_dict", f"fresh dict: {a}, dict of an earlier refused check: {b}")]
    except Exception as e:  # noqa
        return want, [("accepts_exception", f"{type(e).__name__}: {str(e)[:80]}")]
    if want is None or got == want:
        return want, []
    return want, [("accepted_but_must_be_rejected" if got else "rejected_but_must_be_accepted", f"producer {pspec} consumer {cspec}")]


def run_case(case):
    res = dict(n=0, nontrivial=0, counters={}, violations=[])
    k = case["kind"]
    if k == "roundtrip":
        for shp, order, mbits, quant, form in case["items"]:
            shp = tuple(shp)
            res["n"] += 1
            res["nontrivial"] += 1 if mbits not in (0, "nomask") else 0
            try:
                bad = check_roundtrip(shp, order, mbits, quant, form)
            except Exception as e:  # noqa
                bad = [("exception", f"{type(e).__name__}: {str(e)[:80]}")]
            for clause, detail in bad:
                res["violations"].append(viol(dict(kind="compress_roundtrip", clause=clause), f"shape={shp} order={order} mask={mbits} quantity={quant} form={form}: {clause} {detail[:200]}", dict(kind=k, items=[[list(shp), order, mbits, quant, form]])))
        res["sample"] = dict(kind=k, item=case["items"][-1])
    elif k == "prepare":
        for cfg, form in case["items"]:
            cfg = dict(cfg, dims=tuple(cfg["dims"]), inc=tuple(cfg["inc"]))
            res["n"] += 1
            res["nontrivial"] += 1
            for clause, detail in check_prepare(cfg, form):
                res["violations"].append(viol(dict(kind="prepare_mask", clause=clause, form=form), f"{cfg} payload {form}: {clause} {detail[:160]}", dict(kind=k, items=[[cfg, form]])))
        res["sample"] = dict(kind=k, item=case["items"][0])
    else:
        for pc, cc, ps, cs in case["items"]:
            pc = dict(pc, dims=tuple(pc["dims"]), inc=tuple(pc["inc"]))
            cc = dict(cc, dims=tuple(cc["dims"]), inc=tuple(cc["inc"]))
            want, bad = check_accept(pc, cc, ps, cs)
            res["n"] += 1
            res["nontrivial"] += 1 if want is not None and pc != cc else 0
            for clause, detail in bad:
                res["violations"].append(viol(dict(kind="mask_acceptance", clause=clause, producer=ps, consumer=cs), f"producer {pc} consumer {cc}: {clause} {detail}", dict(kind=k, items=[[pc, cc, ps, cs]])))
        res["sample"] = dict(kind=k, item=case["items"][0])
    return res


def replay(case):
    return run_case(case)["violations"]


def chunks(xs, n):
    return [xs[i : i + n] for i in range(0, len(xs), n)]


def run(tier, seed, agg):
    q = tier == "quick"
    maxel = 6 if q else 8
    rt = []
    for shp in shapes(maxel):
        n = int(np.prod(shp))
        for order in "CF":
            for mb in list(range(2**n)) + ["nomask"]:
                for quant in (False, True):
                    for form in ("masked", "external"):
                        rt.append([list(shp), order, mb, quant, form])
                    if mb != "nomask" and (isinstance(mb, int) and mb % 3 == 1):
                        for form in ("external_i8", "external_u8", "external_i64"):
                            rt.append([list(shp), order, mb, quant, form])
                    if mb != "nomask" and n <= 4:
                        for prev in ((2**n - 1) ^ mb, (mb * 5 + 1) % (2**n), 0):
                            if prev != mb:
                                rt.append([list(shp), order, mb, quant, f"reused:{prev}"])
    prep, acc = [], []
    for dim in (1, 2, 3):
        for loc in ("CELLS", "POINTS"):
            lays = list(layouts(dim))
            for l in lays:
                for form in ("ndarray", "list", "flat", "time_axis", "quantity", "quantity_km", "masked_same", "ndarray_nan", "quantity_inf"):
                    prep.append([cfg_of("uniform", dim, loc, l), form])
            if dim == 3 and q:
                lays = [l for l in lays if l["order"] == "F"]
            for l1, l2 in itertools.product(lays, repeat=2):
                for ps in SPECS:
                    for cs in SPECS:
                        acc.append([cfg_of("uniform", dim, loc, l1), cfg_of("uniform", dim, loc, l2), ps, cs])
    # transects / columns: grids with axes of length one
    for dim, dims in ((2, (6, 1)), (2, (1, 6)), (3, (1, 1, 7)), (3, (5, 1, 1))):
        lays = list(layouts(dim))
        if dim == 3:
            lays = lays[::3]
        for l1, l2 in itertools.product(lays, repeat=2):
            for ps, cs in (("M", "M"), ("M", "Mraw"), ("M2", "M"), ("M", "Msame"), ("allfalse", "M")):
                acc.append([cfg_of("uniform", dim, "POINTS", l1, dims=dims), cfg_of("uniform", dim, "POINTS", l2, dims=dims), ps, cs])
    cases = [dict(kind="roundtrip", items=c) for c in chunks(rt, 600)] + [dict(kind="prepare", items=c) for c in chunks(prep, 100)] + [dict(kind="accept", items=c) for c in chunks(acc, 400)]
    k = seed % len(cases)
    for r in pmap(run_case, cases[k:] + cases[:k]):
        agg.add(r)
    return dict(
        level="exploration",
        rule=f"(1) all shapes with <= {maxel} elements in 1-3 D x both orders x ALL masks (+nomask) x plain/Quantity x {{masked input, plain input + external mask}}: to_compressed = ravel order without masked entries, from_compressed restores values and mask; "
        "(2) prepare under a fixed-mask Info for 7 payload forms on every layout of uniform grids in 1-3 D; (3) acceptance of all 7x7 producer/consumer mask specifications {FLEX, NONE, nomask, all-false, M, M's bits in the other layout, different mask} "
        "x all ordered layout pairs through a real exchange_info, judged by physical mask equality computed from coordinates. non-trivial = non-empty masks / different layouts",
        bound=dict(max_elements=maxel, dims="1-3"),
        assumptions=["producer 'nomask'/all-false against an unmasked (Mask.NONE) consumer is not classified by the statement and accepted either way"],
    )
