"""C02 - least-advanced-first, and only what is needed (engine A, same state graphs as C01 plus split-delay families)."""
import itertools

from harness import acheck
from harness import families as F

CLAUSES = ("C02.", "C13.request_time")


def splits(total):
    """delay material summing to `total` hours: all splittings into 2 or 3 fixed delays on the half-hour lattice (bounded), with and without a pass-through adapter in between"""
    out = [[["F", total]]]
    halves = [x / 2 for x in range(1, int(total * 2))]
    for a in halves:
        b = total - a
        out.append([["F", a], ["F", b]])
        out.append([["F", a], ["S", 2], ["F", b]])
    for a in halves:
        for b in halves:
            c = total - a - b
            if c > 0 and a <= b:
                out.append([["F", a], ["F", b], ["F", c]])
    return out


def cases(tier):
    cs = []
    q = tier == "quick"
    end = 6 if q else 8
    names = ["S", "L", "A", "F1", "Fh", "P1", "U"] if q else ["S", "L", "N", "T", "A", "M", "F1", "Fh", "P1", "P2", "U"]
    for ch in F.chains(names, 2):
        # chains whose delay-to-pull adapters remember several requests have much larger state spaces: shorter horizon
        e2 = end if sum(t[1] for t in ch if t[0] == "P") < 2 else min(end, 7)
        for order in (("A", "B"), ("B", "A")):
            cs.append(F.pair(ch, end=e2, order=order))
    # delay-to-pull with several steps, with and without an initial pull of the consumer
    for ch in ([["P", 2, 0]], [["P", 3, 0.5]], [["P", 2, 0], ["F", 1]], [["S", 2], ["P", 2, 0.5]], [["P", 1, 1]], [["P", 2, 1]], [["P", 1, 2]], [["P", 1, 1], ["F", 1]]):
        for pi in (True, False):
            cs.append(F.pair(ch, end=end, pull_initial=pi))
            cs.append(F.pair(ch, end=end, pull_initial=pi, order=("B", "A"), starts=(0, 1)))
    # three components with the full step menu {1,2,3}: only then the pattern  C.time < A.time < B.time < C.next_time  exists, in which
    # an update of A is neither "furthest back" nor needed unless B really lacks A's data
    for c1, c2 in (([], []), ([["F", 1]], []), ([], [["F", 1]]), ([["L"]], []), ([["F", 0.5], ["F", 0.5]], []), ([["P", 1, 0]], [])):
        for order in (("A", "B", "C"), ("C", "B", "A"), ("B", "A", "C")):
            cs.append(F.line3(c1, c2, end=5 if q else 7, order=order, menu=(1, 2, 3)))
    # delay-to-pull with an extra delay on the first link of a three-component line (the producer may be neither least advanced nor needed)
    for c1 in ([["P", 1, 1]], [["P", 1, 2]], [["P", 2, 1]]):
        for order in (("A", "B", "C"), ("C", "B", "A"), ("B", "C", "A")):
            cs.append(F.line3(c1, [], end=6, order=order, menu=(1, 2, 3)))
        cs.append(F.line3(c1, [["F", 1]], end=6, starts=(0, 0, 1)))
    # a source that starts later than its consumer, behind delay adapters (requests before the source's start time are clamped to it)
    for ch in ([["F", 1]], [["F", 2.5]], [["F", 0.5], ["F", 1.5]], [["P", 1, 0]], [["P", 2, 0.5]], [["S", 2], ["F", 1]]):
        for starts in ((2, 0), (1, 0), (3, 0)):
            for order in (("A", "B"), ("B", "A")):
                cs.append(F.pair(ch, end=end, starts=starts, order=order))
    # several delay adapters on one link, acyclic: the producer must not be advanced further than needed
    for total in ([1, 2, 3] if q else [1, 1.5, 2, 2.5, 3, 4]):
        for mat in splits(total):
            cs.append(F.pair(mat, end=end))
            cs.append(F.pair(mat, end=end, order=("B", "A"), starts=(0, 1)))
    # and in 2-rings where the split delay is exactly sufficient (menu {1,2}: sum of largest steps 4)
    for mat in splits(4)[: (12 if q else None)]:
        cs.append(F.ring(2, {1: mat}, menu=(1, 2), end=6))
        cs.append(F.ring(2, {0: mat}, menu=(1, 2), end=6, order=("B", "A")))
    sub = ["L", "F1", "P1"] if q else ["L", "F1", "A", "P1", "U", "S", "Fh"]
    e3 = 5 if q else 7
    for c1 in F.chains(sub, 1):
        for c2 in F.chains(sub, 1):
            for order in F.orders(["A", "B", "C"]):
                cs.append(F.line3(c1, c2, end=e3, order=order))
            for order in (("A", "B", "C"), ("C", "B", "A"), ("B", "C", "A")):
                cs.append(F.join3(c1, c2, end=e3, order=order))
                cs.append(F.fan3(c1, c2, end=e3, order=order))
    # steps off the hour lattice (halves, quarters) and incommensurable menus for producer and consumer
    for ch in ([], [F.TOK["L"]], [F.TOK["F1"]], [["F", 0.75]], [F.TOK["A"]], [F.TOK["P1"]], [F.TOK["N"]], [["T", 0.25]]):
        cs.append(F.pair(ch, menu=(0.5, 1.5), menu_b=(1, 1.25), end=4))
        cs.append(F.pair(ch, menu=(0.75, 1), menu_b=(0.5, 2), end=4, order=("B", "A"), starts=(0, 0.25)))
    # long runs with fixed irregular cyclic step lists (hundreds of updates; also steps of seconds and of days): anything that
    # depends on counters, list growth or accumulated drift
    import copy as _copy

    def fixed(cfg, lists, end):
        c = _copy.deepcopy(cfg)
        for x, fx in zip([x for x in c["comps"] if x["kind"] == "T"], lists):
            x["fixed"] = list(fx)
        c["end"] = end
        c["update_cap"] = 5000
        return c

    for ch in ([], [F.TOK["L"]], [F.TOK["A"]], [F.TOK["F1"]], [F.TOK["P1"]], [F.TOK["N"]], [["F", 0.5], ["F", 1.5]], [F.TOK["M"]]):
        cs.append(fixed(F.pair(ch), ([1, 2.5, 0.75], [2, 1, 1, 3.5]), 300))
        cs.append(fixed(F.pair(ch, order=("B", "A")), ([1 / 3600, 2 / 3600, 0.5], [1, 0.25]), 40))
        cs.append(fixed(F.pair(ch), ([24, 31 * 24, 29 * 24], [7 * 24, 24]), 24 * 400))
    for c1, c2 in (([], []), ([F.TOK["L"]], [F.TOK["F1"]]), ([F.TOK["A"]], [F.TOK["L"]])):
        cs.append(fixed(F.line3(c1, c2), ([1, 2], [3, 1, 1], [2.5]), 200))
        cs.append(fixed(F.join3(c1, c2), ([1], [0.5, 2], [3, 1]), 150))
    cs.append(fixed(F.viaP([], []), ([1, 2], [3, 1, 1]), 200))
    cs.append(fixed(F.viaPP([], [], []), ([0.75], [2, 1]), 150))
    # the same small systems at other time scales: one unit = 100 microseconds / one week
    for unit in (100, 7 * 86400 * 10**6):
        for ch in ([], [F.TOK["L"]], [F.TOK["F1"]], [F.TOK["A"]], [["F", 0.5], ["F", 1.5]]):
            cs.append(dict(F.pair(ch, end=5), unit_us=unit))
            cs.append(dict(F.pair(ch, end=5, order=("B", "A"), starts=(0, 1)), unit_us=unit))
        cs.append(dict(F.line3([], [F.TOK["F1"]], end=4), unit_us=unit))
        cs.append(dict(F.ring(2, {1: [["F", 4]]}, menu=(1, 2), end=5), unit_us=unit))
    # three adapters on a link: delay >> pass-through >> push-based (and the harmless orders)
    for ch in ([F.TOK["F1"], F.TOK["S"], F.TOK["L"]], [F.TOK["U"], F.TOK["S"], F.TOK["L"]], [F.TOK["Fh"], F.TOK["S"], F.TOK["A"]], [F.TOK["P1"], F.TOK["S"], F.TOK["N"]],
               [F.TOK["L"], F.TOK["S"], F.TOK["F1"]], [F.TOK["S"], F.TOK["F1"], F.TOK["L"]], [F.TOK["F1"], F.TOK["S"], F.TOK["S"], F.TOK["L"]]):
        cs.append(F.pair(ch, end=5))
        cs.append(F.pair(ch, end=5, order=("B", "A")))
    # a diamond of pull-based components (five components), the delayed input of the consumer first or second
    for d in ([["F", 1]], [["F", 2.5]], [["P", 1, 0]]):
        for order in (("A", "H", "P", "Q", "B"), ("B", "Q", "P", "H", "A")):
            cs.append(F.diamondPP(d, [], end=4, order=order))
            cs.append(F.diamondPP([], [], end=4, order=order))
    # a very fine producer under a coarse consumer: thousands of publications between two pulls
    for ch in (([F.TOK["L"]], [F.TOK["A"]]) if "c02" == "c01" else ([F.TOK["N"]],)):
        c = F.pair(ch)
        c["comps"][0]["fixed"], c["comps"][1]["fixed"] = [1 / 64], [26, 21.5]
        c["end"], c["update_cap"] = 30, 20000
        cs.append(c)
    # components that start at different times (three components)
    for starts in ((1, 0, 0), (0, 1, 0), (0, 0, 2), (2, 1, 0)):
        for c1, c2 in (([], []), ([F.TOK["L"]], [F.TOK["F1"]]), ([F.TOK["F1"]], [F.TOK["L"]]), ([F.TOK["A"]], [])):
            cs.append(F.line3(c1, c2, end=e3, starts=starts))
            cs.append(F.line3(c1, c2, end=e3, starts=starts, order=("C", "B", "A")))
    for c1 in F.chains(["L", "F1", "S", "P1"], 1):
        for c2 in F.chains(["F1", "S"], 1, src_pull_based=True):
            for order in F.orders(["A", "P", "B"], all_orders=not q):
                cs.append(F.viaP(c1, c2, end=e3 + 1, order=order))
        cs.append(F.diamondP(end=e3, ch=c1))
        cs.append(F.viaPP(c1, [], [], end=e3))
    return cs


def with_stateless(cs, tier):
    """every configuration is explored twice: snapshot BFS (deep horizon, state merging) and stateless DFS (each execution one
    uninterrupted run() call, first choice points enumerated exhaustively) - the latter sees driver state carried across iterations"""
    out = list(cs)
    for c in cs:
        if any(x.get("fixed") for x in c["comps"]):
            continue
        m = max(len(x.get("menu", [1])) for x in c["comps"] if x["kind"] == "T")
        d = (5 if m >= 3 else 7) + (0 if tier == "quick" else 2)
        out.append(dict(c, stateless=d))
    return out


def run(tier, seed, agg):
    acheck.run_cases(with_stateless(cases(tier), tier), CLAUSES, agg, None, seed)
    return dict(
        level="model_checking",
        rule="explicit-state BFS over the real Composition.run (step lengths are environment choices); on every update the updated component must be reachable from a "
        "least-advanced component along 'lacks data' edges of the reference link model (delays of chained delay adapters added), and the time reaching a source output must equal the reference's shifted time; "
        "non-trivial = configuration in which an upstream dependency had to be advanced first or a tie had to be broken",
        bound=dict(step_menu="{1,2,3} h (2 components) / {1,2} h (3+)", horizon_h="6/5" if tier == "quick" else "9/7", split_delays="all 2- and 3-way splittings of totals on the half-hour lattice"),
        assumptions=["ties in 'furthest back' accept any minimal component", "reference link model in core/refmodels.py"],
    )


def replay(case):
    return acheck.replay_case(case, CLAUSES, None)
