"""C09 - output history is never dropped while needed and never grows unboundedly (engine C)."""
import itertools

from core.pool import pmap
from core.runner import viol
from harness import ccheck, cluster

KINDS = {"direct": [], "scale": [["S", 2]], "linear": [["L"]], "delay": [["F", 1]]}


def run_case(case):
    cfg = case["cfg"]
    ccheck.prelude(cfg)  # configurations flagged 'prelude' are explored after a first use of the same cluster shape in this process
    if case.get("path") is not None:
        vs = cluster.run_path(cfg, case["path"])
        return dict(n=1, violations=[viol(fp, what, dict(cfg=cfg, path=p)) for _c, fp, what, p in vs])
    r = cluster.explore(cfg, max_depth=cfg.get("max_depth"), max_states=cfg.get("max_states", 150000), max_seconds=cfg.get("max_seconds", 900))
    res = dict(n=1, states=r["states"], transitions=r["transitions"], traces=r["transitions"], nontrivial=1 if r["stats"].get("evictions") else 0, counters={"evictions": r["stats"].get("evictions", 0), "fixpoints_reached": 1 if r["fixpoint"] else 0}, violations=[])
    if r["capped"] or not r["fixpoint"]:
        res["capped"] = dict(consumers=cfg["consumers"], window=cfg["window"], cap=r["capped"], depth=r["max_depth_reached"])
    for _c, fp, what, p in r["violations"]:
        res["violations"].append(viol(fp, what, dict(cfg=cfg, path=p)))
    res["sample"] = dict(consumers=cfg["consumers"], window=cfg["window"], states=r["states"], transitions=r["transitions"], fixpoint=r["fixpoint"], max_depth=r["max_depth_reached"])
    return res


def replay(case):
    return run_case(case)["violations"]


def cases(tier):
    q = tier == "quick"
    cs = []
    names = list(KINDS)
    for k in names:
        cs.append(dict(consumers=[KINDS[k]], window=4 if q else 5))
    for a, b in itertools.combinations_with_replacement(names, 2):
        cs.append(dict(consumers=[KINDS[a], KINDS[b]], window=(2 if a == b == "delay" else 2.5) if q else 3))
    for combo in itertools.combinations_with_replacement(names[:4], 3):
        cs.append(dict(consumers=[KINDS[x] for x in combo], window=1.5 if q else 2))
    # a delay adapter upstream of a push-based adapter (the adapter's push-time fetch asks for t - delay) next to consumers that run ahead
    for other in ("direct", "scale", "linear"):
        cs.append(dict(consumers=[[["F", 1], ["L"]], KINDS[other]], window=2 if q else 3))
        cs.append(dict(consumers=[[["F", 2.5], ["L"]], KINDS[other]], window=2 if q else 2.5, dmax=2.5))
    cs.append(dict(consumers=[[["F", 1], ["L"]]], window=3 if q else 4))
    # other time scales (one unit = 2 microseconds / one week) and masked payloads
    for unit in (2, 7 * 86400 * 10**6):
        cs.append(dict(consumers=[[], [["L"]]], window=2, unit_us=unit))
        cs.append(dict(consumers=[[["S", 2]], [["F", 1]]], window=2, unit_us=unit))
    cs.append(dict(consumers=[[], [["L"]]], window=2, payload="masked"))
    # fan-out behind a shared pass-through adapter (one target at the output, several registered end points)
    for a, b in itertools.combinations_with_replacement(["direct", "scale", "linear"], 2):
        cs.append(dict(consumers=[KINDS[a], KINDS[b]], trunk=[["S", 2]], window=2 if q else 3))
    cs.append(dict(consumers=[[], [], []], trunk=[["S", 2]], window=1.5 if q else 2))
    cs.append(dict(consumers=[[], []], trunk=[["R"]], payload="grid", window=2 if q else 3))
    cs.append(dict(consumers=[[], [["L"]]], trunk=[["R"]], payload="grid", window=2 if q else 3))
    if not q:
        for combo in itertools.combinations_with_replacement(names[:4], 4):
            if sum(1 for x in combo if KINDS[x] and KINDS[x][0][0] == "F") >= 3:
                continue  # three or four delayed end points: the normalised state space does not close within the time cap
            cs.append(dict(consumers=[KINDS[x] for x in combo], window=1.5, gaps=(1, 2)))
    return [dict(cfg=dict(dict(dmax=1, max_seconds=900 if q else 3000), **c, check_retention=True)) for c in cs]


def run(tier, seed, agg):
    cs = cases(tier)
    cs += [dict(cfg=c) for c in ccheck.with_prelude([c["cfg"] for c in cs if len(c["cfg"]["consumers"]) <= 2], limit=12)]
    cs.sort(key=lambda c: -len(c["cfg"]["consumers"]))
    for r in pmap(run_case, cs):
        agg.add(r)
    return dict(
        level="model_checking",
        rule="explicit-state BFS to a fixpoint over ALL interleavings of push(gap in {1,2,3}) and pull(k, t) (per-consumer non-decreasing t on the half-hour lattice, incl. one request beyond the newest publication) "
        "on a real Output with 1-3 (quick) / 1-4 (thorough) consumers, each direct, behind Scale, LinearTime or DelayFixed; states are fingerprints modulo time translation with the slowest consumer's lag bounded by the window, "
        "so the reachable normalised state space is finite and explored completely; every pull is compared with an unlimited-history reference, the retention bound is checked after every pull; non-trivial = configurations in which evictions happened",
        bound=dict(lag_window_h="4 / 2.5 / 1.5 (1/2/3 consumers)" if tier == "quick" else "5 / 3 / 2 / 1.5 (1/2/3/4 consumers)", gaps="{1,2,3}", lattice_h=0.5),
        assumptions=["values depend on the last two gaps only, so time-translated states have equal futures (abstraction argued in DESIGN.md, engine C)", "lag of the slowest consumer bounded by the window"],
    )
