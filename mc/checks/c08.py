"""C08 - data crossing a link keeps its values, time, units and shape (engine C history search + exhaustive payload product)."""
import itertools
from fractions import Fraction as Fr

import numpy as np

from core.common import H, T0, fm
from core.pool import pmap
from core.runner import viol
from harness import ccheck

E = fm.errors
U = fm.UNITS

# exact conversion factors to SI base of a small catalogue (hand-written, no pint)
FACT = {"m": (Fr(1), "L"), "km": (Fr(1000), "L"), "mm": (Fr(1, 1000), "L"), "cm": (Fr(1, 100), "L"), "s": (Fr(1), "T"), "h": (Fr(3600), "T"), "": (Fr(1), "1"), "%": (Fr(1, 100), "1"),
        "K": (Fr(1), "Th"), "degC": (Fr(1), "Th"), "degF": (Fr(5, 9), "Th")}
OFFS = {"degC": 273.15, "degF": 273.15 - 32 * 5 / 9}  # value_SI = value * factor + offset


def conv(v, a, b):
    """numbers in units a expressed in units b (hand-written table, with offsets)"""
    return (np.asarray(v, dtype=float) * float(FACT[a][0]) + OFFS.get(a, 0.0) - OFFS.get(b, 0.0)) / float(FACT[b][0])


def grids():
    g = {"scalar": fm.NoGrid(), "nogrid1": fm.NoGrid(1), "points": fm.UnstructuredPoints([[0.0, 0.0], [1.0, 0.0], [0.0, 2.0], [3.0, 1.0], [2.0, 2.0], [5.0, 5.0]])}
    for order in "FC":
        for rev in (False, True):
            g[f"uni_{order}{'r' if rev else ''}"] = fm.UniformGrid((3, 4), order=order, axes_reversed=rev)
    return g


def shape_of(g):
    if isinstance(g, fm.NoGrid):
        return () if g.dim == 0 else (6,)
    return tuple(int(x) for x in g.data_shape)


def payloads(gname, g, pu):
    """(name, payload, expected magnitude in producer units or exception class)"""
    shp = shape_of(g)
    n = int(np.prod(shp)) if shp else 1
    base = (np.arange(n, dtype=float) * 1.5 + 2.0).reshape(shp) if shp else np.array(3.5)
    out = []
    if not shp:
        out += [("float", 3.5, base), ("int", 3, np.array(3.0)), ("list1", [3.5], base), ("zero_d", np.array(3.5), base), ("arr1", np.array([3.5]), base)]
    else:
        out += [("shaped", base.copy(), base), ("time_axis", base.copy()[np.newaxis, ...], base), ("list", base.tolist(), base)]
        if not isinstance(g, fm.NoGrid):
            order = g.order
            out.append(("flat", base.reshape(-1, order=order).copy(), base))
            if len(shp) == 2 and shp[0] != shp[1]:
                out.append(("wrong_shape", base.T.copy(), E.FinamDataError))
            out.append(("wrong_size", np.arange(n + 1, dtype=float), E.FinamDataError))
        m_part = np.zeros(shp, dtype=bool)
        m_part.reshape(-1)[1] = True
        out += [("masked_none", np.ma.array(base.copy(), mask=False), base), ("masked_part", np.ma.array(base.copy(), mask=m_part), base), ("masked_full", np.ma.array(base.copy(), mask=True), base)]
    # integer and single-precision payloads (the numbers must be converted, not truncated)
    ibase = (np.arange(n, dtype=np.int64) * 250 + 250).reshape(shp) if shp else np.array(1500)
    out.append(("int64", ibase.astype(np.int64), ibase.astype(float)))
    out.append(("int32_quantity", U.Quantity(ibase.astype(np.int32), pu), ibase.astype(float)))
    out.append(("float32", base.astype(np.float32), base.astype(np.float32).astype(float)))
    if not shp:
        out.append(("python_int", 90, np.array(90.0)))
    out.append(("quantity_same", U.Quantity(base.copy(), pu), base))
    for fu in FACT:
        if fu != pu and FACT[fu][1] == FACT[pu][1]:
            out.append((f"quantity_{fu or '1'}", U.Quantity(base.copy(), fu), conv(base, fu, pu)))
            break
    bad = next(fu for fu in FACT if FACT[fu][1] != FACT[pu][1])
    out.append(("quantity_incompatible", U.Quantity(base.copy(), bad), E.FinamDataError))
    return out


def run_product(case):
    gname, pu, cu = case["grid"], case["pu"], case["cu"]
    g = grids()[gname]
    res = []
    n = 0
    for pname, payload, want in payloads(gname, g, pu):
        if case.get("only") and pname != case["only"]:
            continue
        n += 1
        out = fm.Output("o", fm.Info(time=T0, grid=g, units=pu))
        inp = fm.Input("i", fm.Info(time=T0, grid=g, units=cu))
        out >> inp
        inp.ping()
        inp.exchange_info()
        try:
            out.push_data(payload, T0)
            d = inp.pull_data(T0)
        except Exception as e:  # noqa
            if isinstance(want, type) and isinstance(e, want):
                continue
            res.append((pname, "exception", f"{type(e).__name__}: {str(e)[:100]}"))
            continue
        if isinstance(want, type):
            res.append((pname, "accepted_but_must_be_refused", f"got {d.shape} {d.units}"))
            continue
        mag = d.magnitude
        if tuple(d.shape) != (1,) + shape_of(g):
            res.append((pname, "shape", f"{d.shape} != {(1,) + shape_of(g)}"))
            continue
        if d.units != U.Unit(cu or "dimensionless"):
            res.append((pname, "units", f"{d.units} != {cu}"))
        keep = ~np.ma.getmaskarray(payload).reshape(shape_of(g)) if pname.startswith("masked") else np.ones(shape_of(g), dtype=bool)
        wantc = conv(want, pu, cu)
        if not np.allclose(np.ma.getdata(mag)[0][keep], wantc[keep], rtol=1e-5 if pname == "float32" else 1e-11, atol=1e-3 if pname == "float32" else 1e-9):
            res.append((pname, "values", f"got {np.ma.getdata(mag)[0].tolist()} want {wantc.tolist()}"))
        if pname.startswith("masked"):
            wm = np.ma.getmaskarray(payload).reshape(shape_of(g))
            if not (np.ma.isMaskedArray(mag) and np.array_equal(np.ma.getmaskarray(mag)[0], wm)):
                res.append((pname, "mask", f"mask of result {np.ma.getmaskarray(mag).tolist()} != published {wm.tolist()}"))
    return n, res


def run_sharing(case):
    """re-publication of {same object, view, reshaped view, transposed-back view, copy}"""
    g = grids()[case["grid"]]
    shp = shape_of(g)
    res = []
    n = 0
    for first_kind in ("plain", "quantity"):
        for name in ("same", "view", "reshaped_view", "tt_view", "copy", "new"):
            n += 1
            out = fm.Output("o", fm.Info(time=T0, grid=g, units="m"))
            inp = fm.Input("i", fm.Info(time=T0, grid=g, units="m"))
            out >> inp
            inp.ping()
            inp.exchange_info()
            a = np.array(np.arange(int(np.prod(shp)), dtype=float).reshape(shp) + 1.0)  # a real ndarray also in the 0-d case
            first = a if first_kind == "plain" else U.Quantity(a, "m")
            out.push_data(first, T0)
            b = {"same": a, "view": a[...], "reshaped_view": a.reshape(-1).reshape(shp), "tt_view": a.T.T, "copy": a.copy(), "new": a + 1.0}[name]
            b = b if first_kind == "plain" else U.Quantity(b, "m")
            shares = name not in ("copy", "new")
            hist = case.get("history", 1)
            for h in range(1, hist):  # further independent publications in between: the *previous* one is then not the first retained one
                a = np.array(a + 10.0 * h)
                out.push_data(a if first_kind == "plain" else U.Quantity(a, "m"), T0 + H(h) / 4)
            if hist > 1:
                b = {"same": a, "view": a[...], "reshaped_view": a.reshape(-1).reshape(shp), "tt_view": a.T.T, "copy": a.copy(), "new": a + 1.0}[name]
                b = b if first_kind == "plain" else U.Quantity(b, "m")
            try:
                out.push_data(b, T0 + H(1))
                if shares:
                    res.append((name, "memory_sharing_publication_accepted", first_kind))
            except E.FinamDataError:
                if not shares:
                    res.append((name, "independent_publication_refused", first_kind))
            except Exception as e:  # noqa
                res.append((name, "exception", f"{type(e).__name__}"))
    return n, res


def run_case(case):
    if case["kind"] == "history":
        return ccheck.run_case(case)
    out = dict(n=0, nontrivial=0, counters={}, violations=[])
    if case["kind"] == "product":
        n, res = run_product(case)
        out["n"] = n
        out["nontrivial"] = n if case["pu"] != case["cu"] or case["grid"] != "scalar" else 0
        for pname, how, detail in res:
            out["violations"].append(viol(dict(kind="payload", payload=pname.split("_")[0] if pname.startswith("quantity") else pname, how=how), f"grid={case['grid']} {case['pu']}->{case['cu']} payload {pname}: {how} {detail}", dict(case, only=pname)))
        out["sample"] = dict(case)
    else:
        n, res = run_sharing(case)
        out["n"] = n
        out["nontrivial"] = n
        for name, how, detail in res:
            out["violations"].append(viol(dict(kind="republication", how=how, form=name), f"grid={case['grid']} publication '{name}' after {case.get('history', 1)} retained publication(s) ({detail}): {how}", case))
        out["sample"] = dict(case)
    return out


def replay(case):
    if "cfg" in case:
        return ccheck.replay(case)
    return run_case(case)["violations"]


def run(tier, seed, agg):
    q = tier == "quick"
    cases = []
    W = 3.5 if q else 5
    for payload, pu, cu, scale in (("scalar", "m", None, 1), ("scalar", "m", "km", Fr(1, 1000)), ("grid", "km", "m", 1000), ("scalar", "mm", "mm", 1)):
        cases.append(dict(kind="history", cfg=dict(consumers=[[]], window=W if payload == "scalar" else W - 1, units=pu, in_units=cu, value_scale=scale, expect_units=cu or pu, check_retention=True)))
    for unit in (2, 7 * 86400 * 10**6):
        cases.append(dict(kind="history", cfg=dict(consumers=[[]], window=3, units="m", in_units="km", value_scale=Fr(1, 1000), expect_units="km", check_retention=True, unit_us=unit)))
    cases.append(dict(kind="history", cfg=dict(consumers=[[]], window=3, units="m", in_units="mm", value_scale=1000, expect_units="mm", check_retention=True, payload="masked")))
    cases.append(dict(kind="history", cfg=dict(consumers=[[], []], window=2.5 if q else 3.5, units="m", in_units="cm", value_scale=100, expect_units="cm", check_retention=True)))
    # refused publications in the history: the array published last handed in again for a newer time (shares memory with retained data):
    # refused, and afterwards the newest publication is still the old one (a pull for the refused time is refused, not served)
    cases.append(dict(kind="history", cfg=dict(consumers=[[]], window=2.5 if q else 3.5, units="km", in_units="m", value_scale=1000, expect_units="m", check_retention=True, payload="grid", alias_pushes=True)))
    cases.append(dict(kind="history", cfg=dict(consumers=[[], []], window=2, units="m", in_units="m", expect_units="m", check_retention=True, payload="masked", alias_pushes=True)))
    pairs = [(a, b) for a in FACT for b in FACT if FACT[a][1] == FACT[b][1]]
    for gname in grids():
        for pu, cu in pairs:
            cases.append(dict(kind="product", grid=gname, pu=pu, cu=cu))
        for hist in (1, 2, 3):
            cases.append(dict(kind="sharing", grid=gname, history=hist))
    k = seed % len(cases)
    for r in pmap(run_case, cases[k:] + cases[:k]):
        agg.add(r)
    return dict(
        level="model_checking",
        rule="(1) explicit-state BFS to a fixpoint over all push/pull interleavings on a direct link (1-2 consumers, with unit conversion, scalar and gridded payload): served publication = nearest by |dt| (either neighbour at a mid-point), "
        "refusal outside [oldest needed, newest] (also after a refused publication of an array that shares memory with retained data), result = published numbers x exact conversion factor, shape (1,)+grid shape, consumer units; (2) full product payload form {float,int,list,0-d,flat,shaped,time axis,masked none/partial/full, "
        "quantity same/foreign/incompatible units, wrong shape/size} x grid {NoGrid 0-d/1-d, uniform 2x3 in 4 layouts, unstructured points} x all ordered compatible unit pairs of an 8-unit catalogue; "
        "(3) re-publication of same object / views / copy. non-trivial = product cases with conversion or a grid",
        bound=dict(lag_window_h=W, catalogue=sorted(FACT)),
        assumptions=["conversion factors from a hand-written table", "values compared with rtol 1e-12"],
    )
