"""C12 - time integration adapters conserve the integral (engine C)."""
from harness import acheck, ccheck
from harness import families as F

A_CLAUSES = ("C01.value", "C01.pull_error", "C01.served_but_unavailable")


def replay(case):
    if "path" in case and "family" in case.get("cfg", {}):
        return acheck.replay_case(case, A_CLAUSES, acheck.judge_valid)
    return ccheck.replay(case)


def a_cases(tier):
    """the adapters inside a real composition: producers that start later/earlier than the composition (double initial publication),
    consumers with and without initial pull - the integral over the first interval must be right as well"""
    q = tier == "quick"
    cs = []
    for ch in ([["A", None]], [["A", 0.5]], [["A", 0.0]], [["M", 0.0, True]], [["M", None, True]], [["M", 0.5, False]], [["S", 2], ["A", None]], [["F", 1], ["A", None]]):
        for starts in ((0, 0), (1, 0), (2, 0), (0, 1), (0, 2)):
            if ch[0][0] == "F" and starts[0] > 0:
                continue  # late producer + DelayFixed upstream of a push-based adapter: the open C04 finding (connect fails), not C12's subject
            for pi in (True, False):
                cs.append(F.pair(ch, end=5 if q else 7, starts=starts, pull_initial=pi))
        if ch[0][0] != "F":
            cs.append(F.pair(ch, end=5 if q else 7, starts=(2, 0), order=("B", "A")))
    # a very fine producer under a coarse consumer: well over a thousand publications inside one integration interval
    for ch in ([["A", None]], [["A", 0.5]], [["M", 0.0, True]], [["M", None, False]]):
        c = F.pair(ch)
        c["comps"][0]["fixed"], c["comps"][1]["fixed"] = [1 / 64], [26, 21.5]
        c["end"], c["update_cap"] = 30, 20000
        cs.append(c)
    return cs


def cfgs(tier):
    q = tier == "quick"
    out = []
    W = 2.5 if q else 4
    steps = [None, 0.0, 0.25, 0.5, 1.0]
    for st in steps:
        # AvgOverTime: result in source units
        out.append(dict(consumers=[[["A", st]]], window=W, units="mm/h", convert_to="mm/h", expect_units="mm / h"))
        for per_time in (True, False):
            for u in (["mm/h"] if q and st not in (None, 0.0) else ["mm/h", "mm", ""]):
                # per-time sums: units x time, compared in (source units x hour); absolute sums: source units
                conv = (u + "*h" if u else "h") if per_time else (u or "dimensionless")
                out.append(dict(consumers=[[["M", st, per_time, 1]]], window=W, units=u, convert_to=conv))
    # other time scales: one unit = 2 microseconds / one week (the integral is compared in source units x second resp. x week)
    for unit, uname, usec in ((2, "us", 2e-6), (7 * 86400 * 10**6, "week", 7 * 86400.0)):
        for st in (None, 0.0, 0.5):
            out.append(dict(consumers=[[["A", st]]], window=2, units="mm/h", convert_to="mm/h", unit_us=unit))
            out.append(dict(consumers=[[["M", st, True, 1]]], window=2, units="mm/h", convert_to="mm/h*" + ("s" if uname == "us" else "week"), value_scale=2e-6 if uname == "us" else 1, unit_us=unit))
            out.append(dict(consumers=[[["M", st, False, 1]]], window=2, units="mm", convert_to="mm", unit_us=unit))
    out.append(dict(consumers=[[["A", None]]], window=2, units="mm/h", convert_to="mm/h", payload="masked"))
    out.append(dict(consumers=[[["M", 0.0, True, 1]]], window=2, units="mm/h", convert_to="mm", payload="masked"))
    # reduced units of the per-time sum: mm/h x s must come out as mm
    out.append(dict(consumers=[[["M", 0.0, True, 1]]], window=2, units="mm/h", convert_to="mm", expect_units="mm"))
    out.append(dict(consumers=[[["M", None, True, 1]]], window=2, units="m/s", convert_to="m/s*h", expect_units="m"))
    # gridded payload, adapter behind a pass-through adapter, two integrating consumers on one output
    out.append(dict(consumers=[[["A", None]]], window=2, units="mm/h", convert_to="mm/h", payload="grid"))
    out.append(dict(consumers=[[["M", 0.0, True, 1]]], window=2, units="mm/h", convert_to="mm", payload="grid"))
    out.append(dict(consumers=[[["S", 2], ["A", 0.5]]], window=2.5, units="mm/h", convert_to="mm/h"))
    out.append(dict(consumers=[[["A", None]], [["M", 0.0, True, 1]]], window=1.5 if q else 2.5, units="mm/h"))
    return out


def run(tier, seed, agg):
    # history-only events: now and then a consumer asks for a time behind its previous request; where the slot refuses that, nothing may change
    ccheck.run_cases([dict(c, back_requests=True) for c in cfgs(tier)], agg, seed)
    acheck.run_cases(a_cases(tier), A_CLAUSES, agg, acheck.judge_valid, seed)
    return dict(
        level="model_checking",
        rule="explicit-state BFS to a fixpoint over all interleavings of push(gap in {1,2,3}) and pull(t) (non-decreasing t on the half-hour lattice: every partition of the period into consumer steps, "
        "publications arriving lazily or in advance) for AvgOverTime and SumOverTime x {linear, step 0, .25, .5, 1} x {per_time, absolute} x source units {mm/h, mm, 1}; "
        "oracle = exact integral (Fractions) of the reference interpolant over [previous pull, pull], divided by the elapsed time for averages, with the result converted to source units x hour; reduced units checked",
        bound=dict(lag_window_h=2.5 if tier == "quick" else 4, lattice_h=0.5, gaps="{1,2,3}"),
        assumptions=["repeated pulls for the same time (p0 = p1) are outside the statement and accepted either way", "the first pull integrates from the first publication",
                     "additionally the adapters are run inside real compositions (engine A: all step choices, start offsets of producer/consumer 0-2 h, with/without initial pull) against the same reference"],
    )
