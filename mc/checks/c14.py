"""C14 - grid index-to-coordinate mapping is consistent for every layout (engine D + history sequences)."""
import itertools

import numpy as np

from core.common import fm
from core.pool import pmap
from core.runner import viol

from finam.data.grid_tools import NODE_COUNT

IRREG = {1: [0.0], 2: [0.0, 1.5], 3: [0.0, 1.5, 2.0], 4: [0.0, 1.5, 2.0, 4.5]}
LOCS = ["CELLS", "POINTS"]


def build(cfg):
    cls, dims, order, rev, inc, loc = cfg["cls"], cfg["dims"], cfg["order"], cfg["rev"], cfg["inc"], cfg["loc"]
    if cls == "uniform" and cfg.get("spacing") is not None:
        sp = cfg["spacing"]
        return fm.UniformGrid(dims, spacing=(sp, sp, sp), origin=(0.0, 0.0, 0.0), order=order, axes_reversed=rev, axes_increase=inc, data_location=loc)
    if cls == "rect_i16":
        # axes handed in as narrow integers (e.g. NetCDF 'short' levels): coordinates near the type's range
        axes = []
        for k, d in enumerate(dims):
            a = (np.arange(d, dtype=np.int64) * 9000 + 14000).astype(np.int16)
            axes.append(a if inc[k] else a[::-1])
        return fm.RectilinearGrid(axes, order=order, axes_reversed=rev, data_location=loc)
    if cls == "uniform" and cfg.get("sym"):
        # identical coordinates on every axis (square/cubic domain): transposition errors do not change the shape here
        return fm.UniformGrid(dims, spacing=(1.0, 1.0, 1.0), origin=(0.0, 0.0, 0.0), order=order, axes_reversed=rev, axes_increase=inc, data_location=loc)
    if cls == "uniform":
        return fm.UniformGrid(dims, spacing=(1.0, 2.0, 0.5), origin=(10.0, 20.0, 30.0), order=order, axes_reversed=rev, axes_increase=inc, data_location=loc)
    if cls == "rect":
        axes = []
        for k, d in enumerate(dims):
            a = np.array(IRREG[d]) + 10.0 * (k + 1)
            axes.append(a if inc[k] else a[::-1])
        return fm.RectilinearGrid(axes, order=order, axes_reversed=rev, data_location=loc)
    if cls == "rect_shared":
        # a square/cubic domain described by ONE coordinate array handed in for every axis (all axes in the same direction)
        a = np.array(IRREG[dims[0]]) + 10.0
        a = a if inc[0] else a[::-1].copy()
        return fm.RectilinearGrid([a] * len(dims), order=order, axes_reversed=rev, data_location=loc)
    if cls == "rect_again":
        # the caller's coordinate arrays are used for two grids in a row; the second one is judged
        axes = []
        for k, d in enumerate(dims):
            a = np.array(IRREG[d]) + 10.0 * (k + 1)
            axes.append(a if inc[k] else a[::-1].copy())
        fm.RectilinearGrid(axes, order="F" if order == "C" else "C", axes_reversed=not rev, data_location=loc)
        return fm.RectilinearGrid(axes, order=order, axes_reversed=rev, data_location=loc)
    if cls == "esri":
        return fm.EsriGrid(ncols=dims[0], nrows=dims[1], cellsize=2.0, xllcorner=3.0, yllcorner=5.0, order=order)
    raise ValueError(cls)


def ref_axes(cfg):
    """increasing coordinate axes in x,y,z order, computed without finam"""
    cls, dims = cfg["cls"], cfg["dims"]
    if cls == "uniform" and cfg.get("spacing") is not None:
        return [np.arange(d) * cfg["spacing"] for d in dims]
    if cls == "rect_i16":
        return [np.arange(d) * 9000.0 + 14000.0 for d in dims]
    if cls == "uniform" and cfg.get("sym"):
        return [np.arange(d) * 1.0 for d in dims]
    if cls == "uniform":
        sp, og = (1.0, 2.0, 0.5), (10.0, 20.0, 30.0)
        return [np.arange(d) * sp[k] + og[k] for k, d in enumerate(dims)]
    if cls in ("rect", "rect_again"):
        return [np.array(IRREG[d]) + 10.0 * (k + 1) for k, d in enumerate(dims)]
    if cls == "rect_shared":
        return [np.array(IRREG[d]) + 10.0 for d in dims]
    if cls == "esri":
        return [3.0 + 2.0 * np.arange(dims[0] + 1), 5.0 + 2.0 * np.arange(dims[1] + 1)]


def expected_locs(cfg):
    """reference: dict multi-index (in data-shape order) -> coordinate (x,y,z order), pure arithmetic"""
    axes = ref_axes(cfg)
    inc = cfg["inc"] if cfg["cls"] != "esri" else (True, False)
    rev = cfg["rev"] if cfg["cls"] != "esri" else True
    if cfg["loc"] == "CELLS":
        axes = [(a[:-1] + a[1:]) / 2 if len(a) > 1 else a for a in axes]
    dim = len(axes)
    lens = [len(a) for a in axes]
    out = {}
    for xyz in itertools.product(*[range(n) for n in lens]):
        coord = tuple(axes[k][xyz[k]] for k in range(dim))
        # position along each axis in stored direction
        pos = [xyz[k] if inc[k] else lens[k] - 1 - xyz[k] for k in range(dim)]
        idx = tuple(pos[::-1]) if rev else tuple(pos)
        out[idx] = coord
    shape = tuple(lens[::-1]) if rev else tuple(lens)
    return shape, out


def check_geometry(cfg):
    """returns list of (clause, detail)"""
    bad = []
    try:
        g = build(cfg)
        shape, ref = expected_locs(cfg)
        shp = tuple(int(s) for s in g.data_shape)
        if shp != shape:
            return [("data_shape", f"{shp} != {shape}")]
        if int(g.data_size) != int(np.prod(shape)):
            bad.append(("data_size", f"{g.data_size}"))
        dp = np.asarray(g.data_points)
        if dp.shape != (int(np.prod(shape)), len(shape)):
            return bad + [("data_points_shape", f"{dp.shape}")]
        ax = g.data_axes
        if tuple(len(a) for a in ax) != shp:
            return bad + [("data_axes_len", str([len(a) for a in ax]))]
        rev = g.axes_reversed
        for idx in np.ndindex(*shp):
            coords = [ax[k][idx[k]] for k in range(g.dim)]
            if rev:
                coords = coords[::-1]
            if not np.allclose(coords, ref[idx]):
                bad.append(("data_axes_coordinate", f"idx={idx} {coords} != {ref[idx]}"))
                break
        for idx in np.ndindex(*shp):
            flat = np.ravel_multi_index(idx, shp, order=g.order)
            if not np.allclose(dp[flat], ref[idx]):
                bad.append(("data_points_flat_position", f"idx={idx} flat={flat} {dp[flat]} != {ref[idx]}"))
                break
        cells, pts = np.asarray(g.cells), np.asarray(g.points)
        if len(cells) != int(g.cell_count) or len(pts) != int(g.point_count):
            bad.append(("counts", f"{len(cells)},{len(pts)} vs {g.cell_count},{g.point_count}"))
        if cells.max() >= len(pts) or cells.min() < 0:
            bad.append(("cell_references_missing_point", ""))
        else:
            cc = np.asarray(g.cell_centers)
            ct = g.cell_types
            if len(cc) != len(cells):
                bad.append(("cell_centers_count", ""))
            else:
                for ci, c in enumerate(cells):
                    nn = NODE_COUNT[ct[ci]]
                    if not np.allclose(pts[c[:nn]].mean(axis=0), cc[ci]):
                        bad.append(("cell_center_not_mean_of_nodes", f"cell {ci}"))
                        break
                    # nodes of one cell must be distinct points spanning the cell (no degenerate cell)
                    if len({tuple(p) for p in pts[c[:nn]]}) != nn:
                        bad.append(("cell_nodes_not_distinct", f"cell {ci}"))
                        break
        # points list must hold every node coordinate exactly once
        raxes = ref_axes(cfg)
        want = sorted(itertools.product(*[list(a) for a in raxes]))
        got = sorted(tuple(p) for p in pts)
        if len(want) != len(got) or not np.allclose(np.array(want), np.array(got)):
            bad.append(("points_set", ""))
        u = g.to_unstructured()
        if not (u.data_shape == (dp.shape[0],) and np.allclose(u.data_points, dp)):
            bad.append(("to_unstructured_data_points", ""))
        if not (np.array_equal(u.cells, cells) and np.allclose(u.points, pts) and u.order == g.order and u.data_location == g.data_location):
            bad.append(("to_unstructured_mesh", ""))
        if int(u.data_size) != int(np.prod(shape)):
            bad.append(("to_unstructured_size", ""))
    except Exception as e:  # noqa
        bad.append(("exception", f"{type(e).__name__}: {str(e)[:100]}"))
    return bad


OPS = ["shape", "size", "points", "copy", "deepcopy", "CELLS", "POINTS", "FOO"]


def hist_grid(kind):
    if kind == "uniform2":
        return dict(cls="uniform", dims=(3, 4), order="F", rev=False, inc=(True, True), loc="CELLS")
    if kind == "uniform3r":
        return dict(cls="uniform", dims=(2, 3, 4), order="C", rev=True, inc=(True, False, True), loc="POINTS")
    if kind == "rect1":
        return dict(cls="rect", dims=(4,), order="F", rev=False, inc=(True,), loc="CELLS")
    if kind == "rect2":
        return dict(cls="rect", dims=(2, 4), order="C", rev=True, inc=(False, True), loc="POINTS")
    if kind == "unstruct":
        return dict(cls="unstruct", loc="CELLS")
    if kind == "esri":
        return dict(cls="esri", dims=(3, 2), order="F", rev=True, inc=(True, False), loc="CELLS")
    raise ValueError(kind)


def build_h(cfg):
    if cfg["cls"] == "unstruct":
        return fm.UnstructuredGrid(points=[[0, 0], [1, 0], [0, 1], [1, 1], [2, 2]], cells=[[0, 1, 2], [1, 3, 2]], cell_types=[fm.CellType.TRI, fm.CellType.TRI], data_location=cfg["loc"])
    return build(cfg)


def run_history(kind, seq):
    """seq: list of (op, k): op applied to the k-th live grid object (index modulo the number of live objects); copies stay alive,
    and after every step ALL live objects are compared with freshly built grids of their own current location"""
    cfg0 = dict(hist_grid(kind))
    live = [[build_h(cfg0), dict(cfg0)]]
    bad = []
    for step, (op, k) in enumerate(seq):
        g, cfg = live[k % len(live)]
        if op == "shape":
            _ = g.data_shape
        elif op == "size":
            _ = g.data_size
        elif op == "points":
            _ = g.data_points
        elif op == "copy":
            if len(live) < 3:
                live.append([g.copy(), dict(cfg)])
        elif op == "deepcopy":
            if len(live) < 3:
                live.append([g.copy(deep=True), dict(cfg)])
        else:
            # a location the grid cannot take (EsriGrid: cells only; any grid: an unknown name) must be refused AND leave the grid as it was
            must_fail = op == "FOO" or (cfg["cls"] == "esri" and op == "POINTS")
            try:
                g.data_location = op
                if must_fail:
                    bad.append(("invalid_location_accepted", step, f"{op} on {cfg['cls']}"))
                    break
                cfg["loc"] = op
            except ValueError:
                if not must_fail:
                    raise
        for j, (h, hc) in enumerate(live):
            fresh = build_h(hc)
            for attr in ("data_shape", "data_size", "data_points"):
                a, b = getattr(h, attr), getattr(fresh, attr)
                same = tuple(a) == tuple(b) if attr == "data_shape" else (int(a) == int(b) if attr == "data_size" else (np.shape(a) == np.shape(b) and np.allclose(a, b)))
                if not same:
                    bad.append((attr, step, f"object {j} after {seq[:step+1]}: {attr}={a if attr!='data_points' else np.shape(a)} fresh grid with location {hc['loc']}: {b if attr!='data_points' else np.shape(b)}"))
            if str(h.data_location).split(".")[-1] != hc["loc"]:
                bad.append(("data_location", step, f"object {j}"))
        if bad:
            break
    return bad


def run_case(case):
    res = dict(n=0, nontrivial=0, counters={}, violations=[])
    cnt = res["counters"]
    if case["kind"] == "geom":
        for cfg in case["cfgs"]:
            res["n"] += 1
            nontriv = cfg["rev"] or cfg["order"] == "C" or not all(cfg["inc"]) or cfg["cls"] == "esri" or max(cfg["dims"]) > 4
            res["nontrivial"] += 1 if nontriv else 0
            cnt["geom_" + cfg["cls"]] = cnt.get("geom_" + cfg["cls"], 0) + 1
            for clause, detail in check_geometry(cfg):
                res["violations"].append(viol(dict(kind="geometry", clause=clause, cls=cfg["cls"]), f"{clause} fails for {cfg}: {detail}", dict(kind="geom", cfgs=[cfg])))
        res["sample"] = dict(kind="geom", cfg=case["cfgs"][0])
    else:
        for kind, seq in case["seqs"]:
            res["n"] += 1
            seq = [tuple(x) for x in seq]
            sets = [o for o, _k in seq if o in LOCS]
            res["nontrivial"] += 1 if sets and any(o in ("shape", "size", "points") for o, _k in seq) else 0
            cnt["history_sequences"] = cnt.get("history_sequences", 0) + 1
            for attr, step, detail in run_history(kind, seq):
                res["violations"].append(viol(dict(kind="history", attr=attr), f"{attr} stale on {kind}: {detail}", dict(kind="hist", seqs=[[kind, [list(x) for x in seq]]])))
        res["sample"] = dict(kind="history", grid=case["seqs"][-1][0], ops=[list(x) for x in case["seqs"][-1][1]])
    return res


def replay(case):
    return run_case(case)["violations"]


def gen_cfgs(tier):
    lens = [1, 2, 3] if tier == "quick" else [1, 2, 3, 4]
    cfgs = []
    for cls in ("uniform", "rect"):
        for dim in (1, 2, 3):
            for dims in itertools.product(lens, repeat=dim):
                if tier == "thorough" and dim == 3 and dims.count(4) > 1:
                    continue
                for order in "FC":
                    for rev in (False, True):
                        for inc in itertools.product((True, False), repeat=dim):
                            for loc in LOCS:
                                cfgs.append(dict(cls=cls, dims=dims, order=order, rev=rev, inc=inc, loc=loc))
    for nc in lens:
        for nr in lens:
            for order in "FC":
                cfgs.append(dict(cls="esri", dims=(nc, nr), order=order, rev=True, inc=(True, False), loc="CELLS"))
    # size sweep: many cells along one axis (index arithmetic of the cell tables), spacings that are not binary fractions
    # (axis generation), narrow integer axes
    for n in range(2, 131 if tier == "quick" else 200):
        for order, rev in (("F", False), ("C", False), ("F", True)):
            if n % 3 and (order, rev) != ("C", False) and n not in (50, 99, 104, 108):
                continue
            cfgs.append(dict(cls="uniform", dims=(n, 3), order=order, rev=rev, inc=(True, True), loc="CELLS"))
    cfgs.append(dict(cls="uniform", dims=(8, 8, 3), order="C", rev=False, inc=(True, True, True), loc="CELLS"))
    cfgs.append(dict(cls="uniform", dims=(9, 9, 3), order="F", rev=True, inc=(True, False, True), loc="POINTS"))
    for sp in (0.1, 0.2, 0.05, 0.3, 0.7, 1e-3, 1e6 + 0.1):
        for n in (2, 3, 4, 6, 7, 12, 13, 24, 29, 48):
            cfgs.append(dict(cls="uniform", dims=(n, 3), order="F", rev=False, inc=(True, False), loc="POINTS", spacing=sp))
            cfgs.append(dict(cls="uniform", dims=(3, n), order="C", rev=True, inc=(True, False), loc="CELLS", spacing=sp))
    # coordinate arrays shared between the axes of one grid / used for two grids in a row
    for n in (2, 3):
        for dim in (2, 3):
            for order in "FC":
                for rev in (False, True):
                    for up in (True, False):
                        for loc in LOCS:
                            cfgs.append(dict(cls="rect_shared", dims=(n,) * dim, order=order, rev=rev, inc=(up,) * dim, loc=loc))
    for dims in ((3,), (2, 3), (3, 2, 2)):
        for order in "FC":
            for inc in itertools.product((True, False), repeat=len(dims)):
                for loc in LOCS:
                    cfgs.append(dict(cls="rect_again", dims=dims, order=order, rev=False, inc=inc, loc=loc))
    for dims in ((2,), (3,), (2, 3), (3, 2, 2)):
        for loc in LOCS:
            for order in "FC":
                cfgs.append(dict(cls="rect_i16", dims=dims, order=order, rev=False, inc=tuple([True] * len(dims)), loc=loc))
                cfgs.append(dict(cls="rect_i16", dims=dims, order=order, rev=True, inc=tuple([False] * len(dims)), loc=loc))
    return cfgs


def run(tier, seed, agg):
    cfgs = gen_cfgs(tier)
    k = seed % max(1, len(cfgs))
    cfgs = cfgs[k:] + cfgs[:k]
    cases = [dict(kind="geom", cfgs=cfgs[i : i + 100]) for i in range(0, len(cfgs), 100)]
    depth = 4 if tier == "quick" else 5
    seqs = []

    def gen(prefix, nlive):
        if prefix:
            yield list(prefix)
        if len(prefix) == depth:
            return
        for op in OPS:
            for k in range(nlive):
                nl = min(3, nlive + 1) if op in ("copy", "deepcopy") else nlive
                yield from gen(prefix + [(op, k)], nl)

    for kind in ("uniform2", "uniform3r", "rect1", "rect2", "unstruct", "esri"):
        if tier == "quick" and kind in ("uniform3r", "rect1"):
            continue
        for seq in gen([], 1):
            seqs.append((kind, seq))
    cases += [dict(kind="hist", seqs=seqs[i : i + 2000]) for i in range(0, len(seqs), 2000)]
    for r in pmap(run_case, cases):
        agg.add(r)
    return dict(
        level="exploration",
        rule="full product class{uniform,rectilinear irregular,ESRI} x dim 1-3 x axis lengths x order x axes_reversed x per-axis direction x location, "
        "each judged against pure coordinate arithmetic; plus all op sequences (read shape/size/points, copy, deepcopy, set CELLS/POINTS, each applied to any of up to 3 live objects: original and its copies) up to the depth bound, "
        "after every step ALL live objects judged against freshly built grids. non-trivial = layout differs from default (geometry) / sequence has a read and a location change (history)",
        bound=dict(axis_lengths="1-3" if tier == "quick" else "1-4", history_depth=depth),
        assumptions=["coordinates compared with numpy.allclose", "crs=None throughout"],
    )
