"""C11 - time interpolation adapters equal their mathematical definition (engine C, single consumer behind the adapter)."""
from harness import ccheck

replay = ccheck.replay


def cfgs(tier):
    q = tier == "quick"
    out = []
    ads = [["N"], ["V"], ["L"]] + [["T", p] for p in (0.0, 0.25, 0.5, 0.75, 1.0)]
    for a in ads:
        out.append(dict(consumers=[[a]], window=3 if q else 4, lattice=0.25, beyond=0.25))
        # non-dyadic float values of very different magnitude; at publication times the published value must come back bit-identical
        out.append(dict(consumers=[[a]], window=2 if q else 3, lattice=0.5, float_values=True, exact_at_publications=True))
        out.append(dict(consumers=[[a]], window=2 if q else 3, lattice=0.25, beyond=0.25, payload="grid"))
    # the same lattice at other time scales (one unit = 2 microseconds / one week) and with masked payloads
    for a in ads:
        for unit in (2, 7 * 86400 * 10**6):
            out.append(dict(consumers=[[a]], window=2, lattice=0.5, unit_us=unit))
        out.append(dict(consumers=[[a]], window=2, lattice=0.5, payload="masked"))
    # two independent consumers behind two adapters of one output (eviction in one must not disturb the other), and adapter behind adapter
    for a, b in ((["L"], ["N"]), (["T", 0.5], ["V"]), (["L"], ["L"])):
        out.append(dict(consumers=[[a], [b]], window=1.5 if q else 2.5, lattice=0.5))
    for a, b in ((["L"], ["S", 2]), (["S", 2], ["L"]), (["N"], ["L"]), (["L"], ["T", 0.25])):
        out.append(dict(consumers=[[a, b]], window=2 if q else 3, lattice=0.25, beyond=0.25))
    return out


def run(tier, seed, agg):
    ccheck.run_cases(cfgs(tier), agg, seed)
    return dict(
        level="model_checking",
        rule="explicit-state BFS to a fixpoint over all interleavings of push(gap in {1,2,3}) and pull(t) (non-decreasing t on the quarter-hour lattice, incl. before the first and beyond the newest publication) "
        "for NextTime, PreviousTime, LinearTime and StepTime(p in {0,.25,.5,.75,1}), scalar and 2x2 payloads, two adapters on one output, adapter behind adapter; oracle = exact-Fraction reference with unlimited history "
        "(so any influence of buffer eviction on a later answer is a mismatch); states modulo time translation with bounded lag window",
        bound=dict(lag_window_h=3 if tier == "quick" else 4, lattice_h=0.25, gaps="{1,2,3}"),
        assumptions=["values depend on the last two gaps (not constant, not linear in time), adapters are linear/selecting in the values", "1e-9 relative tolerance for the linear interpolant"],
    )
