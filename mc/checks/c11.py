"""C11 - time interpolation adapters equal their mathematical definition (engine C, single consumer behind the adapter)."""
from harness import ccheck

replay = ccheck.replay


def cfgs(tier):
    q = tier == "quick"
    out = []
    ads = [["N"], ["V"], ["L"]] + [["T", p] for p in (0.0, 0.25, 0.5, 0.75, 1.0)]
    for a in ads:
        out.append(dict(consumers=[[a]], window=3 if q else 4, lattice=0.25, beyond=0.25))
        # non-dyadic float values of very different magnitude; at publication times the published value must come back bit-identical
        out.append(dict(consumers=[[a]], window=2 if q else 3, lattice=0.5, float_values=True, exact_at_publications=True))
        out.append(dict(consumers=[[a]], window=2 if q else 3, lattice=0.25, beyond=0.25, payload="grid"))
    # the same lattice at other time scales (one unit = 2 microseconds / one week) and with masked payloads
    for a in ads:
        for unit in (2, 7 * 86400 * 10**6):
            out.append(dict(consumers=[[a]], window=2, lattice=0.5, unit_us=unit))
        out.append(dict(consumers=[[a]], window=2, lattice=0.5, payload="masked"))
    # the finest representable lattice: one unit = 1 microsecond (gaps of 1-3 us, requests on whole microseconds), steps incl. 0.3/0.7 (a step that equals a reachable fraction only up to float rounding, like 1/3, has no defined side and is left out)
    for a in [["L"], ["N"], ["V"]] + [["T", p] for p in (0.0, 0.25, 0.3, 0.5, 0.7, 0.75, 1.0)]:
        out.append(dict(consumers=[[a]], window=3, lattice=1, beyond=1, unit_us=1))
    # two independent consumers behind two adapters of one output (eviction in one must not disturb the other), and adapter behind adapter
    for a, b in ((["L"], ["N"]), (["T", 0.5], ["V"]), (["L"], ["L"])):
        out.append(dict(consumers=[[a], [b]], window=1.5 if q else 2.5, lattice=0.5))
    for a, b in ((["L"], ["S", 2]), (["S", 2], ["L"]), (["N"], ["L"]), (["L"], ["T", 0.25])):
        out.append(dict(consumers=[[a, b]], window=2 if q else 3, lattice=0.25, beyond=0.25))
    return out


def long_cases(tier):
    """one long scripted history per adapter: more than a thousand publications without any request, then requests from the oldest
    publication onwards (a consumer that reads for the beginning of a long step under a fine producer)"""
    out = []
    n = 1100 if tier == "quick" else 2600
    for a in (["N"], ["V"], ["L"], ["T", 0.5], ["T", 0.0]):
        for first in (0.5, 1):
            path = [["push", 1]] * n + [["pull", 0, t] for t in (first, 40.25, 99, 100, 101.75, n // 2 + 0.5, n - 0.5, n)]
            out.append(dict(cfg=dict(consumers=[[a]], window=n + 1, lattice=0.25), path=path))
    return out


def run(tier, seed, agg):
    # history-only events: now and then a consumer asks for a time behind its previous request; where the slot refuses that, nothing may change
    ccheck.run_cases([dict(c, back_requests=True) for c in cfgs(tier)], agg, seed)
    from core.pool import pmap

    for r in pmap(ccheck.run_case, long_cases(tier)):
        r.setdefault("states", 1100)
        r.setdefault("transitions", 1100)
        r["nontrivial"] = 1
        r["counters"] = {"long_scripted_histories": 1}
        agg.add(r)
    return dict(
        level="model_checking",
        rule="explicit-state BFS to a fixpoint over all interleavings of push(gap in {1,2,3}) and pull(t) (non-decreasing t on the quarter-hour lattice, incl. before the first and beyond the newest publication) "
        "for NextTime, PreviousTime, LinearTime and StepTime(p in {0,.25,.5,.75,1}), scalar and 2x2 payloads, two adapters on one output, adapter behind adapter; oracle = exact-Fraction reference with unlimited history "
        "(so any influence of buffer eviction on a later answer is a mismatch); the same at a 1-microsecond lattice, a 2-us and a one-week unit; scripted histories of 1100-2600 publications before the first request; states modulo time translation with bounded lag window",
        bound=dict(lag_window_h=3 if tier == "quick" else 4, lattice_h=0.25, gaps="{1,2,3}"),
        assumptions=["values depend on the last two gaps (not constant, not linear in time), adapters are linear/selecting in the values", "1e-9 relative tolerance for the linear interpolant"],
    )
