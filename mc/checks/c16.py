"""C16 - regridding puts the right source value at each target location (engine D)."""
import itertools

import numpy as np
from scipy.spatial import Delaunay

from core.common import T0, fm
from core.pool import pmap
from core.runner import viol

E = fm.errors
POISON = 1.0e9


def layouts(dim):
    for order in "FC":
        for rev in (False, True):
            for inc in itertools.product((True, False), repeat=dim):
                yield dict(order=order, rev=rev, inc=list(inc))


TRI_PTS = [[0.0, 0.0], [1.0, 0.0], [2.0, 0.2], [0.0, 1.0], [1.0, 1.1], [2.0, 1.0], [0.5, 2.0], [1.5, 2.1]]
TRI_CELLS = [[0, 1, 4], [0, 4, 3], [1, 2, 5], [1, 5, 4], [3, 4, 6], [4, 7, 6], [4, 5, 7]]


MIX_PTS = [[0.0, 0.0], [1.0, 0.0], [2.0, 0.1], [0.0, 1.0], [1.1, 1.0], [2.0, 1.2], [0.5, 2.0], [1.6, 2.1]]
MIX_CELLS = [[0, 1, 4, 3], [1, 2, 5, 4], [3, 4, 6, -1], [4, 7, 6, -1], [4, 5, 7, -1]]
MIX_TYPES = None


def mk(spec):
    if spec.get("relocate"):
        # the grid object was created for the other data location, its data points were read, then the location was switched
        other = {"CELLS": "POINTS", "POINTS": "CELLS"}[spec.get("loc", "CELLS")]
        g = mk(dict(spec, relocate=False, loc=other))
        _ = g.data_points, g.data_shape, g.data_size
        g.data_location = spec.get("loc", "CELLS")
        return g
    return mk_plain(spec)


def mk_plain(spec):
    k = spec["kind"]
    lay = spec.get("lay") or dict(order="F", rev=False, inc=[True, True, True])
    loc = spec.get("loc", "CELLS")
    if k == "uni1":
        return fm.UniformGrid((5,), spacing=(0.9,), origin=(0.05,), order=lay["order"], axes_reversed=lay["rev"], axes_increase=lay["inc"][:1], data_location=loc)
    if k == "uni2":
        return fm.UniformGrid((3, 4), spacing=(1.0, 0.8), origin=(0.0, 0.1), order=lay["order"], axes_reversed=lay["rev"], axes_increase=lay["inc"][:2], data_location=loc)
    if k == "uni2b":  # a different, shifted geometry as target
        return fm.UniformGrid((4, 3), spacing=(0.7, 0.9), origin=(-0.2, 0.15), order=lay["order"], axes_reversed=lay["rev"], axes_increase=lay["inc"][:2], data_location=loc)
    if k == "rect2":
        ax = [np.array([0.0, 0.7, 1.9, 2.4]), np.array([0.0, 1.2, 1.9])]
        ax = [a if lay["inc"][i] else a[::-1] for i, a in enumerate(ax)]
        return fm.RectilinearGrid(ax, order=lay["order"], axes_reversed=lay["rev"], data_location=loc)
    if k == "esri":
        return fm.EsriGrid(ncols=3, nrows=2, cellsize=0.8, xllcorner=0.1, yllcorner=0.0, order=lay["order"])
    if k == "big":  # 40 x 30 cells = 1200 data locations
        return fm.UniformGrid((41, 31), spacing=(0.25, 0.3), origin=(-0.1, 0.0), order=lay["order"], axes_reversed=lay["rev"], axes_increase=lay["inc"][:2], data_location=loc)
    if k == "coarse":  # 7 x 5 cells = 35 data locations over the same area
        return fm.UniformGrid((8, 6), spacing=(1.4, 1.8), origin=(0.0, 0.1), order=lay["order"], axes_reversed=lay["rev"], axes_increase=lay["inc"][:2], data_location=loc)
    if k == "uni3":
        return fm.UniformGrid((3, 3, 2), spacing=(1.0, 0.9, 1.1), order=lay["order"], axes_reversed=lay["rev"], axes_increase=lay["inc"][:3], data_location=loc)
    if k == "uni3b":
        return fm.UniformGrid((2, 3, 3), spacing=(1.3, 0.7, 0.5), origin=(0.1, 0.1, 0.05), order=lay["order"], axes_reversed=lay["rev"], axes_increase=lay["inc"][:3], data_location=loc)
    if k == "tri":
        return fm.UnstructuredGrid(TRI_PTS, TRI_CELLS, [fm.CellType.TRI] * len(TRI_CELLS), data_location=loc, order=lay["order"])
    if k == "mix":  # triangles and quads in one mesh (padded cell matrix)
        return fm.UnstructuredGrid(MIX_PTS, MIX_CELLS, [fm.CellType.QUAD, fm.CellType.QUAD, fm.CellType.TRI, fm.CellType.TRI, fm.CellType.TRI], data_location=loc, order=lay["order"])
    if k == "pts":
        return fm.UnstructuredPoints([[0.1, 0.1], [1.9, 0.3], [0.4, 1.7], [1.2, 0.9], [2.2, 1.8], [0.9, 0.2]], order=lay["order"])
    raise ValueError(k)


def ref_points(spec, grid):
    """coordinates of the data locations, independent of finam for unstructured cell data (mean of each cell's own nodes)"""
    if spec["kind"] in ("tri", "mix") and spec.get("loc", "CELLS") == "CELLS":
        pts = np.array(TRI_PTS if spec["kind"] == "tri" else MIX_PTS, dtype=float)
        cells = TRI_CELLS if spec["kind"] == "tri" else MIX_CELLS
        return np.array([pts[[i for i in c if i >= 0]].mean(axis=0) for c in cells])
    return np.asarray(grid.data_points, dtype=float)


def bits_mask(bits, grid):
    """mask over the data locations in data_points order -> array in the grid's data shape"""
    n = int(np.prod([int(x) for x in grid.data_shape]))
    flat = np.array([(bits >> i) & 1 for i in range(n)], dtype=bool)
    return flat.reshape(tuple(int(s) for s in grid.data_shape), order=grid.order)


class Overwritten(Exception):
    pass


class SecondTargetDiffers(Exception):
    pass


def run_regrid(adapter, gs, gt, smask, tmask, fields, dtype=float, two_targets=False):
    """pushes each field (values per source location, data_points order); returns list of (flat values, flat mask) in target data_points order.
    two_targets: a second input with the same metadata reads the same adapter (fan-out behind the regridding) and must receive the same"""
    out = fm.Output("o", fm.Info(time=T0, grid=gs, units="m", mask=fm.Mask.NONE if smask is None else smask))
    inp = fm.Input("i", fm.Info(time=T0, grid=gt, units="m", mask=fm.Mask.FLEX if tmask is None else tmask))
    out >> adapter >> inp
    inp2 = None
    if two_targets:
        inp2 = fm.Input("i2", fm.Info(time=T0, grid=gt, units="m", mask=fm.Mask.FLEX if tmask is None else tmask))
        adapter >> inp2
        inp2.ping()
    inp.ping()
    inp.exchange_info()
    if inp2 is not None:
        inp2.exchange_info()
    res = []
    kept = []
    from datetime import timedelta

    for k, f in enumerate(fields):
        d = np.asarray(f, dtype=dtype).reshape(tuple(int(s) for s in gs.data_shape), order=gs.order)
        if smask is not None:
            d = np.ma.array(np.where(smask, dtype(POISON), d), mask=smask)
        t = T0 + timedelta(hours=k)
        out.push_data(d, t)
        got = inp.pull_data(t).magnitude[0]
        if inp2 is not None:
            got2 = inp2.pull_data(t).magnitude[0]
            if not (np.array_equal(np.ma.getmaskarray(got), np.ma.getmaskarray(got2)) and np.array_equal(np.ma.getdata(got)[~np.ma.getmaskarray(got)], np.ma.getdata(got2)[~np.ma.getmaskarray(got2)], equal_nan=got.dtype.kind == "f")):
                raise SecondTargetDiffers(f"data set {k}: the second input behind the adapter received other data than the first")
        kept.append((got, np.ma.getdata(got).copy(), np.ma.getmaskarray(got).copy()))
        res.append((np.ma.getdata(got).ravel(order=gt.order).copy(), np.ma.getmaskarray(got).ravel(order=gt.order).copy()))
    # history: a result handed out earlier must not change when later data is regridded
    for k, (got, vals, msk) in enumerate(kept):
        if not (np.array_equal(np.ma.getdata(got)[~msk], vals[~msk], equal_nan=got.dtype.kind == "f") and np.array_equal(np.ma.getmaskarray(got), msk)):
            raise Overwritten(f"the array delivered by pull {k} of {len(kept)} changed after later pulls")
    return res


def check_nearest(case):
    gs, gt = mk(case["src"]), mk(case["dst"])
    sp, tp = ref_points(case["src"], gs), ref_points(case["dst"], gt)
    smask = bits_mask(case["smask"], gs) if case.get("smask") is not None else None
    tmask = bits_mask(case["tmask"], gt) if case.get("tmask") is not None else None
    sm = np.zeros(len(sp), dtype=bool) if smask is None else smask.ravel(order=gs.order)
    tm = np.zeros(len(tp), dtype=bool) if tmask is None else tmask.ravel(order=gt.order)
    if sm.all():
        return []
    if case.get("int64"):
        # 64-bit integers beyond 2**53 (time stamps, ids): the nearest source value must arrive exactly
        ident = (10**18 + 5 + np.arange(len(sp), dtype=np.int64)).astype(np.int64)
    else:
        ident = 1000.0 + np.arange(len(sp))
    try:
        (vals, gmask), (vals2, gmask2) = run_regrid(fm.adapters.RegridNearest(), gs, gt, smask, tmask, [ident, ident[::-1] + 7], dtype=np.int64 if case.get("int64") else float, two_targets=bool(case.get("two_targets")))
    except Exception as e:  # noqa
        return [("earlier_result_overwritten" if isinstance(e, Overwritten) else "second_target_differs" if isinstance(e, SecondTargetDiffers) else "exception", f"{type(e).__name__}: {str(e)[:100]}")]
    bad = []
    if case.get("int64") and (vals.dtype.kind not in "iu" or vals2.dtype.kind not in "iu"):
        # comparing a float result with the integer identity field would round both sides: the result must still be an integer array
        bad.append(("integer_payload_changed_type", f"delivered dtype {vals.dtype}"))
        return bad
    # the second data set (other values at every source) goes through the same adapter: same selection
    sel_ok = np.array_equal(gmask, gmask2) and all(gmask[j] or tm[j] or vals2[j] == (ident[::-1] + 7)[int(vals[j] - ident[0])] for j in range(len(tp)) if ident[0] <= vals[j] < ident[0] + len(sp))
    if not sel_ok:
        bad.append(("second_data_set_regridded_differently", ""))
    for j, p in enumerate(tp):
        if tm[j]:
            if not gmask[j]:
                bad.append(("masked_target_not_masked", f"target {j}"))
            continue
        if gmask[j]:
            bad.append(("unmasked_target_masked", f"target {j}"))
            continue
        dist = np.linalg.norm(sp - p, axis=1)
        dist[sm] = np.inf
        near = np.where(np.isclose(dist, dist.min(), rtol=1e-12, atol=1e-12))[0]
        if not any(vals[j] == ident[k] for k in near):
            src = int(vals[j] - ident[0]) if ident[0] <= vals[j] < ident[0] + len(sp) else None
            why = "masked_source_used" if (src is not None and sm[src]) or vals[j] == POISON else "not_nearest_source"
            bad.append((why, f"target {j} at {p.tolist()} got source {src} (value {vals[j]}), nearest unmasked {near.tolist()}"))
        if len(bad) > 3:
            break
    return bad


def hull_info(pts):
    """Delaunay of the unmasked source points, or None if degenerate"""
    if len(pts) < pts.shape[1] + 1:
        return None
    c = pts - pts.mean(axis=0)
    if np.linalg.matrix_rank(c, tol=1e-9) < pts.shape[1]:
        return None
    try:
        return Delaunay(pts)
    except Exception:  # noqa
        return None


def check_linear(case):
    gs, gt = mk(case["src"]), mk(case["dst"])
    sp, tp = ref_points(case["src"], gs), ref_points(case["dst"], gt)
    smask = bits_mask(case["smask"], gs) if case.get("smask") is not None else None
    sm = np.zeros(len(sp), dtype=bool) if smask is None else smask.ravel(order=gs.order)
    fill = case["fill"]
    hull = hull_info(sp[~sm])
    if hull is None:
        return None
    dim = sp.shape[1]
    fields = [np.ones(len(sp))] + [sp[:, k].copy() for k in range(dim)] + [2.0 + sum((k + 1.5) * sp[:, k] for k in range(dim))]
    unit = case.get("unit_vectors", False)
    if unit:
        fields += [np.eye(len(sp))[k] for k in range(len(sp))]
    try:
        if case.get("nan_first"):
            # history: the first data set through the adapter has a NaN at one unmasked source location ("not known yet"); the later ones are judged
            nf = np.ones(len(sp))
            nf[int(np.argmin(np.linalg.norm(sp - sp[~sm].mean(axis=0), axis=1) + np.where(sm, np.inf, 0)))] = np.nan
            res = run_regrid(fm.adapters.RegridLinear(fill_with_nearest=fill), gs, gt, smask, None, [nf] + fields)[1:]
        else:
            res = run_regrid(fm.adapters.RegridLinear(fill_with_nearest=fill), gs, gt, smask, None, fields)
    except Exception as e:  # noqa
        return [("earlier_result_overwritten" if isinstance(e, Overwritten) else "exception", f"{type(e).__name__}: {str(e)[:100]}")]
    simplex = hull.find_simplex(tp)
    # barycentric margin: exclude targets within 1e-9 of the hull boundary from the verdict
    bad = []
    for j, p in enumerate(tp):
        s = simplex[j]
        if s >= 0:
            T = hull.transform[s]
            b = T[:dim].dot(p - T[dim])
            bary = np.append(b, 1 - b.sum())
        inside = s >= 0
        # boundary tolerance: distance to being outside
        margin = None
        if inside:
            # minimal barycentric coordinate over all simplices containing p is unreliable; use a shrink test instead
            centroid = sp[~sm].mean(axis=0)
            inner = hull.find_simplex(centroid + (p - centroid) * (1 + 1e-7)) >= 0
            if not inner:
                continue
        else:
            centroid = sp[~sm].mean(axis=0)
            if hull.find_simplex(centroid + (p - centroid) * (1 - 1e-7)) >= 0:
                continue
        gm = res[0][1][j]
        if inside:
            if gm:
                bad.append(("inside_hull_but_masked", f"target {j} {p.tolist()}"))
                continue
            want = [1.0] + [p[k] for k in range(dim)] + [2.0 + sum((k + 1.5) * p[k] for k in range(dim))]
            for fi, w in enumerate(want):
                if not np.isclose(res[fi][0][j], w, rtol=1e-9, atol=1e-9):
                    bad.append(("affine_field_not_reproduced", f"target {j} {p.tolist()} field {fi}: {res[fi][0][j]} != {w}"))
                    break
            if unit:
                for k in range(len(sp)):
                    wgt = res[len(want) + k][0][j]
                    if wgt < -1e-9 or wgt > 1 + 1e-9:
                        bad.append(("weight_outside_0_1", f"target {j} source {k}: {wgt}"))
                    if sm[k] and abs(wgt) > 1e-12:
                        bad.append(("masked_source_has_weight", f"target {j} source {k}: {wgt}"))
        else:
            if fill:
                if gm:
                    bad.append(("outside_hull_masked_despite_fill", f"target {j}"))
                    continue
                dist = np.linalg.norm(sp - p, axis=1)
                dist[sm] = np.inf
                near = np.where(np.isclose(dist, dist.min(), rtol=1e-12, atol=1e-12))[0]
                got = res[len(fields) - (len(sp) if unit else 0) - 1][0][j]
                wants = [2.0 + sum((k + 1.5) * sp[n, k] for k in range(dim)) for n in near]
                if not any(np.isclose(got, w, rtol=1e-9) for w in wants):
                    bad.append(("fill_not_nearest_unmasked_source", f"target {j} {p.tolist()} got {got}, nearest {near.tolist()} -> {wants}"))
            elif not gm:
                bad.append(("outside_hull_not_masked", f"target {j} {p.tolist()} value {res[0][0][j]}"))
        if len(bad) > 3:
            break
    return bad


def run_case(case):
    res = dict(n=0, nontrivial=0, counters={}, violations=[])
    for it in case["items"]:
        kind = it["kind"]
        try:
            bad = check_nearest(it) if kind == "nearest" else check_linear(it)
        except Exception as e:  # noqa
            bad = [("harness_exception", f"{type(e).__name__}: {str(e)[:100]}")]
        if bad is None:
            res["counters"]["degenerate_source_skipped"] = res["counters"].get("degenerate_source_skipped", 0) + 1
            continue
        res["n"] += 1
        res["nontrivial"] += 1 if (it.get("smask") or it.get("tmask") or it["src"].get("lay") != it["dst"].get("lay")) else 0
        res["counters"][kind] = res["counters"].get(kind, 0) + 1
        for clause, detail in bad:
            res["violations"].append(viol(dict(kind="regrid_" + kind, clause=clause), f"{it}: {clause}: {detail}", dict(items=[it])))
    res["sample"] = case["items"][0]
    return res


def replay(case):
    return run_case(case)["violations"]


def items(tier):
    q = tier == "quick"
    out = []
    L2 = list(layouts(2))
    L3 = list(layouts(3))
    L1 = list(layouts(1))
    # same geometry, every ordered pair of layouts (identity clause) and a different geometry, cells/points, no masks
    for sk, dk, LL in (("uni2", "uni2", L2), ("uni2", "uni2b", L2), ("rect2", "uni2b", L2), ("uni2b", "rect2", L2), ("uni1", "uni1", L1)):
        for l1, l2 in itertools.product(LL, repeat=2):
            for sl, dl in itertools.product(("CELLS", "POINTS"), repeat=2):
                if sk == dk and sl != dl and q:
                    continue
                out.append(dict(kind="nearest", src=dict(kind=sk, lay=l1, loc=sl), dst=dict(kind=dk, lay=l2, loc=dl)))
    for l1, l2 in itertools.product(L3 if not q else L3[::3], L3 if not q else L3[::5]):
        out.append(dict(kind="nearest", src=dict(kind="uni3", lay=l1, loc="CELLS"), dst=dict(kind="uni3", lay=l2, loc="CELLS")))
        out.append(dict(kind="nearest", src=dict(kind="uni3", lay=l1, loc="POINTS"), dst=dict(kind="uni3b", lay=l2, loc="CELLS")))
    for order in "FC":
        for l in L2:
            out.append(dict(kind="nearest", src=dict(kind="esri", lay=dict(order=order, rev=True, inc=[True, False])), dst=dict(kind="uni2b", lay=l, loc="POINTS")))
            out.append(dict(kind="nearest", src=dict(kind="uni2", lay=l, loc="CELLS"), dst=dict(kind="esri", lay=dict(order=order, rev=True, inc=[True, False]))))
            for uk, ul in (("tri", "CELLS"), ("tri", "POINTS"), ("pts", "POINTS"), ("mix", "CELLS"), ("mix", "POINTS")):
                out.append(dict(kind="nearest", src=dict(kind=uk, loc=ul, lay=dict(order=order, rev=False, inc=[True, True])), dst=dict(kind="uni2b", lay=l, loc="CELLS")))
                if uk != "pts" and l == L2[0]:
                    out.append(dict(kind="nearest", src=dict(kind=uk, loc=ul, relocate=True, lay=dict(order=order, rev=False, inc=[True, True])), dst=dict(kind="uni2b", lay=l, loc="CELLS")))
                    out.append(dict(kind="nearest", src=dict(kind="uni2", loc="CELLS", relocate=True, lay=l), dst=dict(kind=uk, loc=ul, relocate=True, lay=dict(order=order, rev=False, inc=[True, True]))))
                out.append(dict(kind="nearest", src=dict(kind="uni2", lay=l, loc="POINTS"), dst=dict(kind=uk, loc=ul, lay=dict(order=order, rev=False, inc=[True, True]))))
    # ALL source masks on a 6-cell source x all source layouts x 4 target layouts (both orders); ALL target masks on a 6-cell target
    tl = [l for l in L2 if l["inc"] == [True, True] or (l["order"] == "C" and l["rev"])]
    for bits in range(1, 63):
        for l1 in L2:
            for l2 in (tl if not q else tl[:4]):
                out.append(dict(kind="nearest", src=dict(kind="uni2", lay=l1, loc="CELLS"), dst=dict(kind="uni2b", lay=l2, loc="CELLS"), smask=bits))
        for l2 in L2:
            out.append(dict(kind="nearest", src=dict(kind="uni2b", lay=tl[bits % len(tl)], loc="POINTS"), dst=dict(kind="uni2", lay=l2, loc="CELLS"), tmask=bits))
            if bits % 5 == 0:
                out.append(dict(kind="nearest", src=dict(kind="uni2", lay=tl[bits % len(tl)], loc="CELLS"), dst=dict(kind="uni2", lay=l2, loc="CELLS"), smask=bits, tmask=(bits * 7) % 63))
        for order in "FC":
            out.append(dict(kind="nearest", src=dict(kind="esri", lay=dict(order=order, rev=True, inc=[True, False])), dst=dict(kind="pts", lay=dict(order="C", rev=False, inc=[True, True])), smask=bits))
            out.append(dict(kind="nearest", src=dict(kind="uni2", lay=L2[bits % 16], loc="CELLS"), dst=dict(kind="pts", lay=dict(order=order, rev=False, inc=[True, True])), smask=bits))
    # fan-out behind the regridding adapter: two inputs read one adapter (no mask, source masks, target masks, both)
    for bits in (None, 1, 5, 33, 62):
        for tb in (None, 9):
            for l1 in L2[::3]:
                out.append(dict(kind="nearest", src=dict(kind="uni2", lay=l1, loc="CELLS"), dst=dict(kind="uni2b", lay=L2[7], loc="CELLS"), smask=bits, tmask=tb, two_targets=True))
    # many data locations on one side (index tables wider than one byte), fine -> coarse and coarse -> fine
    for l1 in (L2[0], L2[5], L2[10]):
        for l2 in (L2[0], L2[9]):
            out.append(dict(kind="nearest", src=dict(kind="big", lay=l1, loc="CELLS"), dst=dict(kind="coarse", lay=l2, loc="CELLS")))
            out.append(dict(kind="nearest", src=dict(kind="coarse", lay=l2, loc="POINTS"), dst=dict(kind="big", lay=l1, loc="CELLS")))
    out.append(dict(kind="nearest", src=dict(kind="big", lay=L2[0], loc="POINTS"), dst=dict(kind="coarse", lay=L2[3], loc="CELLS"), smask=(1 << 700) | (1 << 3) | (1 << 1100)))
    # 64-bit integer payloads with and without masks
    for bits in (None, 5, 33):
        for tb in (None, 9):
            out.append(dict(kind="nearest", src=dict(kind="uni2", lay=L2[2], loc="CELLS"), dst=dict(kind="uni2b", lay=L2[7], loc="CELLS"), smask=bits, tmask=tb, int64=True))
    # linear: unstructured sources and masked structured sources
    for fill in (False, True):
        for l2 in L2:
            for uk, ul in (("tri", "POINTS"), ("tri", "CELLS"), ("pts", "POINTS"), ("mix", "CELLS")):
                for order in "FC":
                    out.append(dict(kind="linear", src=dict(kind=uk, loc=ul, lay=dict(order=order, rev=False, inc=[True, True])), dst=dict(kind="uni2b", lay=l2, loc="POINTS"), fill=fill, unit_vectors=(l2 == L2[0])))
        fam = [1, 2, 4, 32, 33, 2049, 1 + 1024, 5, 4 + 64, 3000, 36]  # masks over the 12 points of uni2/POINTS (single, corners, pairs, scattered)
        for bits in fam:
            for l1 in L2:
                for l2 in (tl if not q else tl[:3]):
                    out.append(dict(kind="linear", src=dict(kind="uni2", lay=l1, loc="POINTS"), dst=dict(kind="uni2b", lay=l2, loc="CELLS"), smask=bits, fill=fill, unit_vectors=(l1 == L2[0] and l2 == tl[0])))
        for bits in range(1, 63, 1 if not q else 4):
            for l1 in (L2 if not q else L2[::3]):
                out.append(dict(kind="linear", src=dict(kind="uni2", lay=l1, loc="CELLS"), dst=dict(kind="uni2b", lay=tl[bits % len(tl)], loc="POINTS"), smask=bits, fill=fill))
        # a first data set with a NaN at an unmasked interior source, then the clean fields
        for uk, ul in (("tri", "POINTS"), ("pts", "POINTS"), ("mix", "CELLS")):
            for l2 in L2[::5]:
                out.append(dict(kind="linear", src=dict(kind=uk, loc=ul, lay=dict(order="F", rev=False, inc=[True, True])), dst=dict(kind="uni2b", lay=l2, loc="POINTS"), fill=fill, nan_first=True))
        for bits in (1, 33, 2049):
            out.append(dict(kind="linear", src=dict(kind="uni2", lay=L2[0], loc="POINTS"), dst=dict(kind="uni2b", lay=tl[0], loc="CELLS"), smask=bits, fill=fill, nan_first=True))
    return out


def run(tier, seed, agg):
    its = items(tier)
    cases = [dict(items=its[i : i + 60]) for i in range(0, len(its), 60)]
    k = seed % len(cases)
    for r in pmap(run_case, cases[k:] + cases[:k]):
        agg.add(r)
    return dict(
        level="exploration",
        rule="nearest: every ordered layout pair of the same and of different geometries (uniform, rectilinear, ESRI, 1-3 D, cells/points), unstructured triangles/points on either side, ALL masks of a 6-location source and of a 6-location target "
        "x source layouts x target layouts; oracle = brute-force Euclidean nearest unmasked source (any on ties) on the source-identity field, masked targets masked, poison under the source mask. "
        "linear: unstructured sources and masked structured sources x target layouts x fill on/off; affine fields (1, x, y, generic) reproduced inside the hull of the unmasked sources, unit vectors give weights in [0,1] and zero weight on masked sources, "
        "outside masked or nearest-filled. non-trivial = masks or different layouts",
        bound=dict(grids="<= 18 data locations", masks="all 62 proper masks of 6 locations + fixed family on 12"),
        assumptions=["data_points order of grids as verified by C14", "targets within 1e-7 (relative to the centroid) of the hull boundary are excluded from the inside/outside verdict", "structured unmasked linear path (RegularGridInterpolator) is outside the statement and not exercised"],
    )
