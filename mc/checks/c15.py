"""C15 - canonical form and conversion between compatible grids preserve located values (engine D)."""
import itertools

import numpy as np

from core.common import H, T0, fm
from core.pool import pmap
from core.runner import viol

from checks.c14 import build as build_fresh
from checks.c14 import expected_locs, ref_axes


def build(cfg):
    """cfg['aged']: the grid has a history - it was copied, the copy was moved to the other data location and used (the usual way to describe
    the same geometry for a point variable); the grid itself must be unaffected"""
    g = build_fresh(cfg)
    if cfg.get("aged") and cfg["cls"] != "esri":
        p = g.copy()
        p.data_location = "POINTS" if cfg["loc"] == "CELLS" else "CELLS"
        _ = p.data_shape, p.data_size, p.data_points
        _ = p.compatible_with(g)
    return g

DIMS = {1: (4,), 2: (3, 4), 3: (2, 3, 4)}


def layouts(dim):
    for order in "FC":
        for rev in (False, True):
            for inc in itertools.product((True, False), repeat=dim):
                yield dict(order=order, rev=rev, inc=inc)


def cfg_of(cls, dim, loc, lay, dims=None):
    return dict(cls=cls, dims=dims or DIMS[dim], loc=loc, **lay)


def field(coord):
    c = list(coord) + [0.0, 0.0]
    return 100.0 * c[0] + 10.0 * c[1] + c[2] + 0.25


def maskf(coord):
    c = list(coord) + [0.0, 0.0]
    return (int(round(2 * c[0])) + 3 * int(round(2 * c[1])) + 5 * int(round(2 * c[2]))) % 3 == 0


def located_array(cfg, masked):
    shape, ref = expected_locs(cfg)
    a = np.zeros(shape)
    m = np.zeros(shape, dtype=bool)
    for idx, coord in ref.items():
        a[idx] = field(coord)
        m[idx] = maskf(coord)
    return (np.ma.array(a, mask=m) if masked else a), shape, ref


def check_canonical(cfg):
    bad = []
    g = build(cfg)
    a, shape, ref = located_array(cfg, False)
    can = g.to_canonical(a)
    back = g.from_canonical(can)
    if not (np.shape(back) == np.shape(a) and np.array_equal(back, a)):
        bad.append(("roundtrip", "from_canonical(to_canonical(x)) != x"))
    axes = ref_axes(cfg)
    if cfg["loc"] == "CELLS":
        axes = [(x[:-1] + x[1:]) / 2 if len(x) > 1 else x for x in axes]
    want_shape = tuple(len(x) for x in axes)
    if tuple(np.shape(can)) != want_shape:
        bad.append(("canonical_shape", f"{np.shape(can)} != {want_shape}"))
    else:
        for xyz in itertools.product(*[range(n) for n in want_shape]):
            if not np.isclose(can[xyz], field([axes[k][xyz[k]] for k in range(len(axes))])):
                bad.append(("canonical_not_xyz_increasing", f"canonical[{xyz}] = {can[xyz]}"))
                break
    # with a trailing extra axis (the documented place of extra dimensions in canonical form)
    return bad


def check_link(c1, c2, time_axis, masked, units=("m", "m")):
    """push located data on Output(g1), pull on Input(g2); with units[0] != units[1] the link also converts units"""
    g1, g2 = build(c1), build(c2)
    a, shape1, _ = located_array(c1, masked)
    want, shape2, ref2 = located_array(c2, masked)
    out = fm.Output("o", fm.Info(time=T0, grid=g1, units=units[0]))
    inp = fm.Input("i", fm.Info(time=T0, grid=g2, units=units[1]))
    out >> inp
    inp.ping()
    try:
        inp.exchange_info()
    except Exception as e:  # noqa
        return [("exchange_refused", f"{type(e).__name__}: {str(e)[:80]}")]
    scale = {("m", "m"): 1.0, ("m", "km"): 1e-3, ("km", "m"): 1e3}[tuple(units)]
    try:
        out.push_data(a[np.newaxis, ...] if time_axis else a, T0)
        d = inp.pull_data(T0)
    except Exception as e:  # noqa
        return [("exception", f"{type(e).__name__}: {str(e)[:80]}")]
    mag = d.magnitude
    if tuple(mag.shape) != (1,) + shape2:
        return [("shape", f"{mag.shape} != {(1,) + shape2}")]
    bad = []
    got = np.ma.getdata(mag)[0]
    keep = ~np.ma.getmaskarray(want) if masked else np.ones(shape2, dtype=bool)
    if str(d.units) != str(fm.UNITS.Unit(units[1])):
        bad.append(("units", f"{d.units} != {units[1]}"))
    if not np.allclose(got[keep], np.ma.getdata(want)[keep] * scale, rtol=1e-12):
        bad.append(("values_not_at_same_location" if scale == 1.0 else "values_wrong_after_relayout_and_conversion", f"delivered {got.tolist()} want {(np.ma.getdata(want) * scale).tolist()}"))
    if masked:
        if not (np.ma.isMaskedArray(mag) and np.array_equal(np.ma.getmaskarray(mag)[0], np.ma.getmaskarray(want))):
            bad.append(("mask_not_at_same_location", ""))
    if c1 == c2 and scale == 1.0 and not np.array_equal(got, np.ma.getdata(a)):
        bad.append(("equal_layout_not_passed_through", ""))
    return bad


def check_link_history(c1, c2, static):
    """two publications and repeated pulls over a re-layout link: earlier results must stay intact, a static input must serve the
    same correctly located data on every pull"""
    g1, g2 = build(c1), build(c2)
    a, shape1, _ = located_array(c1, False)
    want, shape2, _ = located_array(c2, False)
    bad = []
    try:
        if static:
            out = fm.Output("o", fm.Info(time=None, grid=g1, units="m"), static=True)
            inp = fm.Input("i", fm.Info(time=None, grid=g2, units="m"), static=True)
        else:
            out = fm.Output("o", fm.Info(time=T0, grid=g1, units="m"))
            inp = fm.Input("i", fm.Info(time=T0, grid=g2, units="m"))
        out >> inp
        inp.ping()
        inp.exchange_info()
        if static:
            out.push_data(a, None)
            for k in range(3):
                d = inp.pull_data(None)
                if tuple(d.shape) != (1,) + shape2 or not np.allclose(d.magnitude[0], want):
                    bad.append(("static_input_pull_%d_wrong" % k, f"{d.magnitude.tolist()}"))
                    break
        else:
            out.push_data(a, T0)
            out.push_data(a + 1000.0, T0 + H(1))
            d0 = inp.pull_data(T0)
            keep0 = d0.magnitude[0]
            d1 = inp.pull_data(T0 + H(1))
            if not np.allclose(d1.magnitude[0], want + 1000.0):
                bad.append(("second_pull_wrong", ""))
            if not np.allclose(keep0, want):
                bad.append(("earlier_result_overwritten_by_later_pull", f"{np.asarray(keep0).tolist()}"))
    except Exception as e:  # noqa
        bad.append(("exception", f"{type(e).__name__}: {str(e)[:80]}"))
    return bad


def check_fanout(c1, c2, c3, first):
    """one output read by two inputs with layouts of their own: the transformation handed to one link must not be changed by the other
    link's metadata exchange (either exchange order); two publications, both inputs pull both"""
    g1, g2, g3 = build(c1), build(c2), build(c3)
    a, _, _ = located_array(c1, False)
    wants = [located_array(c, False)[0] for c in (c2, c3)]
    bad = []
    try:
        out = fm.Output("o", fm.Info(time=T0, grid=g1, units="m"))
        inps = [fm.Input("i0", fm.Info(time=T0, grid=g2, units="m")), fm.Input("i1", fm.Info(time=T0, grid=g3, units="m"))]
        for i in inps:
            out >> i
        for i in inps:
            i.ping()
        for k in ((0, 1) if first == 0 else (1, 0)):
            inps[k].exchange_info()
        out.push_data(a, T0)
        out.push_data(a + 1000.0, T0 + H(1))
        for step, off in ((0, 0.0), (1, 1000.0)):
            for k in (0, 1):
                d = inps[k].pull_data(T0 + H(step))
                if tuple(d.magnitude.shape) != (1,) + wants[k].shape or not np.allclose(d.magnitude[0], wants[k] + off):
                    bad.append(("fan_out_values_not_at_same_location", f"input {k} (exchanged {'first' if k == first else 'second'}), publication {step}: delivered {np.asarray(d.magnitude).tolist()}"))
                    return bad
    except Exception as e:  # noqa
        bad.append(("exception", f"{type(e).__name__}: {str(e)[:80]}"))
    return bad


def point_set(cfg):
    _, ref = expected_locs(cfg)
    return sorted(tuple(round(float(x), 9) for x in c) for c in ref.values())


def check_compat(c1, c2):
    g1, g2 = build(c1), build(c2)
    want = c1["loc"] == c2["loc"] and len(c1["dims"]) == len(c2["dims"]) and point_set(c1) == point_set(c2)
    bad = []
    for a, b, ca, cb in ((g1, g2, c1, c2), (g2, g1, c2, c1)):
        got = bool(a.compatible_with(b))
        if got != want:
            bad.append(("compatible_with_wrong", f"compatible_with={got}, same data locations={want}"))
    if want and not bad:
        # history on one transformation object: two data sets converted one after the other; the first result must stay what it was
        t = g1.get_transform_to(g2)
        a1, _s, _r = located_array(c1, False)
        w1, _s, _r = located_array(c2, False)
        if t is not None:
            r1 = t(a1)
            snap = np.array(r1, copy=True)
            r2 = t(2.0 * a1 + 1.0)
            if not (np.shape(snap) == np.shape(w1) and np.allclose(snap, w1)):
                bad.append(("transform_wrong", "first conversion"))
            elif not np.allclose(np.asarray(r2), 2.0 * w1 + 1.0):
                bad.append(("transform_wrong", "second conversion"))
            elif not np.array_equal(np.asarray(r1), snap):
                bad.append(("earlier_conversion_overwritten_by_later_one", ""))
    return bad


def run_case(case):
    res = dict(n=0, nontrivial=0, counters={}, violations=[])
    kind = case["kind"]
    if kind == "canon":
        for cfg in case["cfgs"]:
            res["n"] += 1
            res["nontrivial"] += 1 if (cfg["rev"] or not all(cfg["inc"])) else 0
            try:
                bad = check_canonical(cfg)
            except Exception as e:  # noqa
                bad = [("exception", f"{type(e).__name__}: {str(e)[:80]}")]
            for clause, detail in bad:
                res["violations"].append(viol(dict(kind="canonical", clause=clause), f"{cfg}: {clause} {detail}", dict(kind="canon", cfgs=[cfg])))
        res["sample"] = dict(kind="canon", cfg=case["cfgs"][0])
    elif kind == "link":
        for item in case["items"]:
            if item[2] == "fanout":
                res["n"] += 1
                res["nontrivial"] += 1 if item[1] != item[3] else 0
                for clause, detail in check_fanout(item[0], item[1], item[3], item[4]):
                    res["violations"].append(viol(dict(kind="link_delivery", how=clause), f"Output({item[0]}) -> Input({item[1]}) and Input({item[3]}), exchange of input {item[4]} first: {clause} {detail[:160]}", dict(kind="link", items=[list(item)])))
                continue
            if item[2] == "history":
                res["n"] += 1
                res["nontrivial"] += 1
                for clause, detail in check_link_history(item[0], item[1], item[3]):
                    res["violations"].append(viol(dict(kind="link_delivery", how=clause), f"Output({item[0]}) -> Input({item[1]}) static={item[3]}: {clause} {detail[:160]}", dict(kind="link", items=[list(item)])))
                continue
            c1, c2, ta, mk = item[:4]
            un = tuple(item[4]) if len(item) > 4 else ("m", "m")
            res["n"] += 1
            res["nontrivial"] += 1 if c1 != c2 else 0
            for clause, detail in check_link(c1, c2, ta, mk, un):
                res["violations"].append(viol(dict(kind="link_delivery", how=clause), f"Output({c1}, {un[0]}) -> Input({c2}, {un[1]}) time_axis={ta} masked={mk}: {clause} {detail[:200]}", dict(kind="link", items=[[c1, c2, ta, mk, list(un)]])))
        res["sample"] = dict(kind="link", src=case["items"][0][0], dst=case["items"][0][1], variant=str(case["items"][0][2]), flag=case["items"][0][3])
    else:
        for c1, c2 in case["items"]:
            res["n"] += 1
            res["nontrivial"] += 1
            try:
                bad = check_compat(c1, c2)
            except Exception as e:  # noqa
                bad = [("exception", f"{type(e).__name__}: {str(e)[:80]}")]
            for clause, detail in bad:
                res["violations"].append(viol(dict(kind="compatibility", clause=clause), f"{c1} vs {c2}: {detail}", dict(kind="compat", items=[[c1, c2]])))
        res["sample"] = dict(kind="compat", a=case["items"][0][0], b=case["items"][0][1])
    return res


def norm(case):
    """JSON round trip turns tuples into lists"""
    def fix(c):
        return dict(c, dims=tuple(c["dims"]), inc=tuple(c["inc"]))
    if case["kind"] == "canon":
        return dict(case, cfgs=[fix(c) for c in case["cfgs"]])
    if case["kind"] == "link":
        return dict(case, items=[[fix(it[0]), fix(it[1])] + [fix(x) if isinstance(x, dict) else x for x in it[2:]] for it in case["items"]])
    return dict(case, items=[[fix(a), fix(b)] for a, b in case["items"]])


def replay(case):
    return run_case(norm(case))["violations"]


def chunks(xs, n):
    return [xs[i : i + n] for i in range(0, len(xs), n)]


def run(tier, seed, agg):
    q = tier == "quick"
    canon, links, compat = [], [], []
    for cls in ("uniform", "rect"):
        for dim in (1, 2, 3):
            for loc in ("CELLS", "POINTS"):
                lays = list(layouts(dim))
                for l in lays:
                    canon.append(cfg_of(cls, dim, loc, l))
                for l1, l2 in itertools.product(lays, repeat=2):
                    for ta, mk in ((True, False), (False, False), (True, True), (False, True)):
                        links.append([cfg_of(cls, dim, loc, l1), cfg_of(cls, dim, loc, l2), ta, mk])
                    compat.append([cfg_of(cls, dim, loc, l1), cfg_of(cls, dim, loc, l2)])
                    if cls == "uniform" and dim < 3:
                        links.append([cfg_of(cls, dim, loc, l1), cfg_of(cls, dim, loc, l2), "history", False])
                        links.append([cfg_of(cls, dim, loc, l1), cfg_of(cls, dim, loc, l2), "history", True])
                        # re-layout and unit conversion on the same link
                        links.append([cfg_of(cls, dim, loc, l1), cfg_of(cls, dim, loc, l2), True, False, ["m", "km"]])
                        links.append([cfg_of(cls, dim, loc, l1), cfg_of(cls, dim, loc, l2), False, True, ["km", "m"]])
    # one output, two inputs with layouts of their own (all layout triples in 2 D, either exchange order)
    lays2 = list(layouts(2))
    for l1 in (lays2 if not q else [l for l in lays2 if l["order"] == "F"]):
        for l2, l3 in itertools.product(lays2, repeat=2):
            for first in (0, 1):
                links.append([cfg_of("uniform", 2, "CELLS", l1), cfg_of("uniform", 2, "CELLS", l2), "fanout", cfg_of("uniform", 2, "CELLS", l3), first])
    # square / cubic domains with identical coordinates on all axes (a transposed array has the same shape here)
    for dim, dims in ((2, (3, 3)), (3, (3, 3, 3))):
        for loc in ("CELLS", "POINTS"):
            lays = list(layouts(dim))
            for l in lays:
                canon.append(dict(cfg_of("uniform", dim, loc, l, dims=dims), sym=True))
            for l1, l2 in itertools.product(lays, repeat=2):
                for ta, mk in ((True, False), (True, True)):
                    links.append([dict(cfg_of("uniform", dim, loc, l1, dims=dims), sym=True), dict(cfg_of("uniform", dim, loc, l2, dims=dims), sym=True), ta, mk])
                compat.append([dict(cfg_of("uniform", dim, loc, l1, dims=dims), sym=True), dict(cfg_of("uniform", dim, loc, l2, dims=dims), sym=True)])
    # grids with a history (copied, the copy relocated and used)
    for cls in ("uniform", "rect"):
        for dim in (1, 2):
            for loc in ("CELLS", "POINTS"):
                lays = list(layouts(dim))
                for l in lays:
                    canon.append(dict(cfg_of(cls, dim, loc, l), aged=True))
                for l1, l2 in itertools.product(lays, repeat=2):
                    compat.append([dict(cfg_of(cls, dim, loc, l1), aged=True), dict(cfg_of(cls, dim, loc, l2), aged=True)])
                    if l1 != l2 and l1["order"] == "F":
                        links.append([dict(cfg_of(cls, dim, loc, l1), aged=True), dict(cfg_of(cls, dim, loc, l2), aged=True), True, False])
    # ESRI and its uniform twin, every layout of the twin
    for order in "FC":
        esri = dict(cls="esri", dims=(3, 2), order=order, rev=True, inc=(True, False), loc="CELLS")
        canon.append(esri)
        for l in layouts(2):
            twin = dict(cls="uniform", dims=(4, 3), loc="CELLS", **l)
            # the twin must have the same geometry: esri cellsize 2, corner (3,5) -> not the uniform default; compare only esri<->esri
        for order2 in "FC":
            esri2 = dict(esri, order=order2)
            for ta, mk in ((True, False), (True, True)):
                links.append([esri, esri2, ta, mk])
            compat.append([esri, esri2])
    # the "exactly when" clause: different geometry, location, dimension, class
    base = cfg_of("uniform", 2, "CELLS", dict(order="F", rev=False, inc=(True, True)))
    others = [dict(base, dims=(4, 3)), dict(base, dims=(3, 5)), dict(base, loc="POINTS"), cfg_of("uniform", 1, "CELLS", dict(order="F", rev=False, inc=(True,))), cfg_of("uniform", 3, "CELLS", dict(order="F", rev=False, inc=(True, True, True))),
              cfg_of("rect", 2, "CELLS", dict(order="F", rev=False, inc=(True, True))), dict(base, rev=True, dims=(4, 3)), dict(base, dims=(3, 4), inc=(False, True)), dict(base, cls="rect", rev=True, dims=(4, 3))]
    for l in layouts(2):
        for o in others:
            compat.append([dict(base, **l), o])
    cases = [dict(kind="canon", cfgs=c) for c in chunks(canon, 40)] + [dict(kind="link", items=c) for c in chunks(links, 150)] + [dict(kind="compat", items=c) for c in chunks(compat, 200)]
    k = seed % len(cases)
    for r in pmap(run_case, cases[k:] + cases[:k]):
        agg.add(r)
    return dict(
        level="exploration",
        rule="all ordered pairs of layouts (order x axes_reversed x per-axis direction) of one geometry in 1-3 D with non-square lengths, cells and points, uniform and rectilinear (irregular) grids, ESRI pairs; "
        "to/from_canonical round trip and xyz-increasing indexing on the coordinate-identity field; compatible_with against equality of independently computed data-point sets (plus different geometry/location/dimension/class); "
        "on a real Output->Input link with/without time axis, plain/masked: every delivered value and mask bit at the same physical coordinate, shape (1,)+target shape, equal layouts passed through; one output read by two inputs with layouts of their own (all layout triples in 2 D, either order of metadata exchange, two publications). non-trivial = unequal layout pairs",
        bound=dict(dims="1-3", lengths=DIMS),
        assumptions=["coordinates from the arithmetic reference of C14", "cell-vs-point grids with coinciding coordinates and structured-vs-unstructured twins are not generated (the statement does not classify them)"],
    )
