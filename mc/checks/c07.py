"""C07 - after connect both ends of every link agree on metadata; conflicts are rejected (engine D inside a real Composition)."""
import itertools

import numpy as np

from core.common import H, T0, compose, fm
from core.pool import pmap
from core.runner import viol

D = fm.adapters
E = fm.errors
U = fm.UNITS
Mask = fm.Mask


def mk_grid(k):
    if k == "unset":
        return None
    if k == "nogrid":
        return fm.NoGrid()
    if k == "G":
        return fm.UniformGrid((3, 4))
    if k == "Glay":
        return fm.UniformGrid((3, 4), axes_reversed=True, axes_increase=(True, False))
    if k == "Gloc":
        return fm.UniformGrid((3, 4), data_location="POINTS")
    if k == "Gother":
        return fm.UniformGrid((4, 4))
    if k == "Gflip":  # same locations and array shape as G, second axis running downwards
        return fm.UniformGrid((3, 4), axes_increase=(True, False))
    if k == "Erev":  # same locations as G, axes reversed (array shape of the ESRI grid), second axis upwards
        return fm.UniformGrid((3, 4), axes_reversed=True)
    if k == "Esri":  # ESRI layout: axes reversed, second axis downwards
        return fm.EsriGrid(ncols=2, nrows=3)
    if k in RECT:
        return fm.RectilinearGrid([np.array(RECT[k][0], dtype=float), np.array(RECT[k][1], dtype=float)])
    if k in ("Uc", "Up"):  # an unstructured mesh with as many cells as nodes: per-cell and per-node data have the same shape
        pts = [[0.0, 0.0], [2.0, 0.0], [2.0, 2.0], [0.0, 2.0], [1.0, 1.0]]
        cells = [[0, 1, 4], [1, 2, 4], [2, 3, 4], [3, 0, 4], [0, 1, 2]]
        return fm.UnstructuredGrid(pts, cells, [fm.CellType.TRI] * 5, data_location="CELLS" if k == "Uc" else "POINTS")
    raise ValueError(k)


RECT = {  # node coordinates per axis: the uniform 3x4 grid, two grids with the same node count and extent but other interior nodes, and the uniform one given downwards
    "Runi": ([0, 1, 2], [0, 1, 2, 3]),
    "R1": ([0, 1, 2], [0, 0.5, 2.5, 3]),
    "R2": ([0, 1, 2], [0, 2, 2.5, 3]),
    "Rdown": ([0, 1, 2], [3, 2, 1, 0]),
}
OWN = {"G": (False, False), "Gflip": (False, True), "Glay": (True, True), "Erev": (True, False), "Esri": (True, True)}  # kind -> (axes reversed, second axis downwards)


def own_points(k):
    """array index -> cell centre, from the documented layout rules and the node coordinates alone (independent of the library's grid code)"""
    if k in OWN:
        xs, ys, (rev, down) = [0, 1, 2], [0, 1, 2, 3], OWN[k]
    elif k in RECT:
        xs, ys = RECT[k]
        rev, down = False, False
    else:
        return None
    cx = [(a + b) / 2 for a, b in zip(xs[:-1], xs[1:])]
    cy = [(a + b) / 2 for a, b in zip(ys[:-1], ys[1:])]
    if down:
        cy = cy[::-1]
    return {((j, i) if rev else (i, j)): (float(x), float(y)) for i, x in enumerate(cx) for j, y in enumerate(cy)}


def located_kind(k):
    op = own_points(k)
    if op is None:
        return located(mk_grid(k))
    return ("CELLS", True, tuple(sorted((round(x, 9), round(y, 9)) for x, y in op.values())))


def masked_set(k, mk):
    """physical locations hidden by mask kind mk on grid kind k (None if not an array mask)"""
    if mk == "nomask":
        return frozenset()
    if mk not in ("M", "M2", "Ma"):
        return None
    g = mk_grid(k)
    arr = mk_mask(mk, g)
    op = own_points(k)
    if op is None:
        pts = np.asarray(g.data_points).reshape(tuple(int(s) for s in g.data_shape) + (-1,), order=g.order)
        return frozenset(tuple(round(float(x), 9) for x in pts[idx]) for idx in np.ndindex(arr.shape) if arr[idx])
    return frozenset(op[idx] for idx in np.ndindex(arr.shape) if arr[idx])


def located(g):
    if g is None:
        return None
    if isinstance(g, fm.NoGrid):
        return ("nogrid", tuple(g.data_shape))
    return (str(g.data_location), isinstance(g, fm.data.StructuredGrid), tuple(sorted(tuple(round(float(x), 9) for x in p) for p in g.data_points)))


def phys_mask(kind, g, variant):
    """mask array for grid g: the same physical cells masked whatever the layout ('M'), or another set ('M2')"""
    pts = g.data_points
    shape = tuple(int(s) for s in g.data_shape)
    flat = np.array([((int(round(2 * p[0])) + 3 * int(round(2 * p[1]))) % 3 == 0) != (variant == "M2") for p in pts])
    return flat.reshape(shape, order=g.order)


def mk_mask(k, g):
    if k == "unset":
        return None
    if k == "FLEX":
        return Mask.FLEX
    if k == "NONE":
        return Mask.NONE
    if k == "nomask":
        return np.ma.nomask
    if k == "Ma":  # the same ARRAY whatever the grid: on grids of equal shape but other orientation it hides other locations
        a = np.zeros(tuple(int(x) for x in g.data_shape), dtype=bool)
        a.flat[0] = a.flat[1] = True
        return a
    return phys_mask(k, g, k)


def mk_info(side):
    g = mk_grid(side["grid"])
    meta = {}
    if side["foo"] != "absent":
        meta["foo"] = None if side["foo"] == "unset" else side["foo"]
    return fm.Info(time=T0 if side["time"] == "set" else None, grid=g, units=None if side["units"] == "unset" else side["units"], mask=mk_mask(side["mask"], g), **meta)


class Prod(fm.TimeComponent):
    def __init__(self, side):
        super().__init__()
        self._name, self._time, self.side = "P", T0, side

    def _next_time(self):
        return self.time + H(1)

    def _initialize(self):
        self.outputs.add(name="o", info=mk_info(self.side))
        self.create_connector()

    def _connect(self, st):
        push = {}
        info = self.connector.out_infos.get("o")
        if info is not None:
            shape = info.grid_shape if info.grid is not None else ()
            push["o"] = np.full(shape, 7.0) if shape else 7.0
        self.try_connect(st, push_data=push)

    def _validate(self):
        pass

    def _update(self):
        pass

    def _finalize(self):
        pass


class Cons(fm.TimeComponent):
    def __init__(self, name, side):
        super().__init__()
        self._name, self._time, self.side = name, T0, side

    def _next_time(self):
        return self.time + H(1)

    def _initialize(self):
        self.inputs.add(name="i", info=mk_info(self.side))
        self.create_connector(pull_data=["i"])

    def _connect(self, st):
        self.try_connect(st)

    def _validate(self):
        pass

    def _update(self):
        pass

    def _finalize(self):
        pass


class Relay(fm.TimeComponent):
    """component that derives its output metadata from its input with transfer rules and overrides some fields"""

    def __init__(self, out_units, pull):
        super().__init__()
        self._name, self._time, self.out_units, self.pull = "R", T0, out_units, pull

    def _next_time(self):
        return self.time + H(1)

    def _initialize(self):
        from finam.tools import FromInput, FromValue

        self.inputs.add(name="i", time=T0, grid=None, units=None)
        self.outputs.add(name="o")
        self.create_connector(pull_data=["i"] if self.pull else [], out_info_rules={"o": [FromInput("i"), FromValue("units", self.out_units), FromValue("foo", "z")]})

    def _connect(self, st):
        push = {}
        info = self.connector.out_infos.get("o")
        if info is not None:
            shape = info.grid_shape if info.grid is not None else ()
            push["o"] = np.full(shape, 3.0) if shape else 3.0
        self.try_connect(st, push_data=push)

    def _validate(self):
        pass

    def _update(self):
        pass

    def _finalize(self):
        pass


def run_relay(p, c, out_units, pull, order):
    prod, rel, con = Prod(p), Relay(out_units, pull), Cons("C0", c)
    comps = {"P": prod, "R": rel, "C0": con}
    comp = compose([comps[n] for n in order])
    prod.outputs["o"] >> rel.inputs["i"]
    rel.outputs["o"] >> con.inputs["i"]
    bad = []
    try:
        comp.connect(T0)
    except E.FinamMetaDataError:
        return "meta", bad
    except Exception as e:  # noqa
        return "exc", [("non_metadata_exception:" + type(e).__name__, str(e)[:100])]
    ri, po = rel.inputs["i"].info, prod.outputs["o"].info
    if ri.units is None or not fm.data.tools.compatible_units(ri.units, po.units):
        bad.append(("input_units_not_convertible", f"relay input {ri.units} vs delivered {po.units}"))
    if ri.meta.get("foo") != po.meta.get("foo"):
        bad.append(("input_meta_differs_from_delivered", f"relay input foo={ri.meta.get('foo')!r}, delivered {po.meta.get('foo')!r}"))
    ci, ro = con.inputs["i"].info, rel.outputs["o"].info
    if located(ci.grid) != located(ro.grid) or not fm.data.tools.compatible_units(ci.units, ro.units):
        bad.append(("consumer_info_disagrees_with_relay_output", f"{ci.units} vs {ro.units}"))
    if ro.units != U.Unit(out_units) or ro.meta.get("foo") != "z":
        bad.append(("rule_values_not_applied", f"{ro.units} {ro.meta.get('foo')}"))
    return "ok", bad


DIM = {"m": "L", "km": "L", "mm": "L", "s": "T", "mm/h": "L/T"}
FACT = {"m": 1.0, "km": 1000.0, "mm": 0.001, "s": 1.0}


def mask_verdict(p, c):
    """True/False/None(open) for the mask clause"""
    pm, cm = p["mask"], c["mask"]
    if pm == "unset":
        return None  # a producer that leaves its mask unset: the statement is not conclusive (carry the consumer's value vs. reject)
    if cm in ("unset", "FLEX"):
        return True
    if cm == "NONE":
        return True if pm == "NONE" else (None if pm == "nomask" else False)
    if pm in ("FLEX", "NONE"):
        return False if cm in ("M", "M2") else (None if pm == "NONE" else False)
    if "Ma" in (pm, cm) or own_points(p["grid"]) is not None or own_points(c["grid"]) is not None:
        a, b = masked_set(p["grid"], pm), masked_set(c["grid"] if c["grid"] != "unset" else p["grid"], cm)
        return a == b
    same = {"nomask": "empty", "M": "M", "M2": "M2"}
    return same[pm] == same[cm]


def verdict(p, c, via):
    """'ok' | 'reject' | None (open).  Rules written from the statement, independent of Info.accepts"""
    fields = []
    # time
    fields.append(p["time"] == "set" or c["time"] == "set")
    # grid, seen through the adapter's documented rewrite
    pg, cg = p["grid"], c["grid"]
    if via == "GridToValue":  # any declared source grid is aggregated to a scalar
        fields.append(pg != "unset" and cg in ("unset", "nogrid"))
    elif via == "ValueToGrid":  # adapter constructed with grid G
        if pg in ("unset", "nogrid") and cg == "Glay":
            return None  # same locations, other layout than the adapter's own grid: the adapter insists on its layout; the statement does not demand acceptance
        fields.append(pg in ("unset", "nogrid") and cg in ("unset", "G"))
    else:
        if pg == "unset" or cg == "unset":
            fields.append(not (pg == "unset" and cg == "unset"))
        else:
            fields.append(located_kind(pg) == located_kind(cg))
    # units
    pu, cu = p["units"], c["units"]
    if via == "SumOverTime":
        eff = {"mm/h": "mm", "unset": "unset"}.get(pu, None)
        if pu == "unset":
            fields.append(False)  # the adapter asks its source for the units (requests units=None upstream)
        elif eff is None:
            return None
        else:
            fields.append(cu == "unset" or DIM[cu] == DIM[eff])
    else:
        if pu == "unset" or cu == "unset":
            fields.append(not (pu == "unset" and cu == "unset"))
        else:
            fields.append(DIM[pu] == DIM[cu])
    # extra meta key: an unset (None) producer field must be provided by the consumer
    fields.append(not (p["foo"] == "unset" and c["foo"] in ("unset", "absent")))
    mv = mask_verdict(p, c)
    if not all(fields):
        return "reject"
    if mv is None:
        return None
    return "ok" if mv else "reject"


def verdict_fanout(p, cs):
    """several consumers on one output (direct links): an unset producer field takes the value of the first requesting consumer and
    every other consumer is checked against it - so the set values of all ends must be pairwise compatible and at least one end must set each field"""
    ends = [p] + list(cs)
    if all(e["time"] == "unset" for e in ends):
        return "reject"
    grids = [e["grid"] for e in ends if e["grid"] != "unset"]
    if not grids or len({located(mk_grid(g)) for g in grids}) > 1:
        return "reject"
    units = [e["units"] for e in ends if e["units"] != "unset"]
    if not units or len({DIM[u] for u in units}) > 1:
        return "reject"
    if p["foo"] == "unset" and all(c["foo"] in ("unset", "absent") for c in cs):
        return "reject"
    mvs = [mask_verdict(p, c) for c in cs]
    if any(m is False for m in mvs):
        return "reject"
    # an unset producer field that only some consumers can provide: whether the providing consumer asks first depends on the
    # listing order; the statement does not demand that the exchange waits for it -> either outcome
    for f in ("time", "grid", "units"):
        if p[f] == "unset" and any(c[f] == "unset" for c in cs):
            return None
    if p["foo"] == "unset" and any(c["foo"] in ("unset", "absent") for c in cs):
        return None
    return None if any(m is None for m in mvs) else "ok"


def mk_adapter(via):
    if via == "Scale":
        return D.Scale(1.0)
    if via == "GridToValue":
        return D.GridToValue(np.mean)
    if via == "ValueToGrid":
        return D.ValueToGrid(fm.UniformGrid((3, 4)))
    if via == "SumOverTime":
        return D.SumOverTime(per_time=True)
    return None


def run_one(p, cs, via, order):
    try:
        prod = Prod(p)
        cons = [Cons("C%d" % k, c) for k, c in enumerate(cs)]
        comps = {"P": prod, **{c.name: c for c in cons}}
        comp = compose([comps[n] for n in order])
    except Exception as e:  # noqa - invalid Info construction (e.g. mask shape vs grid): not a case
        return ("construct", type(e).__name__, str(e)[:80]), None, None
    if isinstance(via, list) and via[0] == "mix":
        for c, v in zip(cons, via[1:]):
            a = mk_adapter(v)
            if a is None:
                prod.outputs["o"] >> c.inputs["i"]
            else:
                prod.outputs["o"] >> a
                a >> c.inputs["i"]
        via = None
        cons_linked = True
    else:
        cons_linked = False
    ad = mk_adapter(via)
    for c in ([] if cons_linked else cons):
        if ad is not None:
            prod.outputs["o"] >> ad
            ad >> c.inputs["i"]
            ad = None if len(cons) == 1 else mk_adapter(via)
        else:
            prod.outputs["o"] >> c.inputs["i"]
    try:
        comp.connect(T0)
        out = ("ok",)
    except E.FinamMetaDataError as e:
        out = ("meta", str(e)[:80])
    except Exception as e:  # noqa
        out = ("exc", type(e).__name__, str(e)[:100])
    return out, prod, cons


def after_success(p, c, via, prod, con):
    bad = []
    ii = con.inputs["i"].info
    oi = prod.outputs["o"].info
    if ii.time is None or ii.grid is None or ii.units is None:
        bad.append(("input_info_has_unset_field", f"time={ii.time} grid={ii.grid} units={ii.units}"))
        return bad
    if ii.mask is None:
        bad.append(("input_mask_unset", ""))
    if "foo" in ii.meta and ii.meta["foo"] is None and not (p["foo"] == "absent"):
        bad.append(("input_meta_unset", ""))
    if via in (None, "Scale"):
        if located(ii.grid) != located(oi.grid):
            bad.append(("input_grid_other_locations_than_delivered", f"{ii.grid} vs {oi.grid}"))
        if not fm.data.tools.compatible_units(ii.units, oi.units):
            bad.append(("input_units_not_convertible", f"{ii.units} vs {oi.units}"))
        # unset on one side carries the other side's value
        if c["time"] == "unset" and ii.time != T0:
            bad.append(("time_not_carried_downstream", str(ii.time)))
        if p["time"] == "unset" and oi.time != T0:
            bad.append(("time_not_carried_upstream", str(oi.time)))
        if c["grid"] == "unset" and not (ii.grid == oi.grid):
            bad.append(("grid_not_carried_downstream", ""))
        if p["grid"] == "unset" and c["grid"] != "unset" and located(oi.grid) != located(mk_grid(c["grid"])):
            bad.append(("grid_not_carried_upstream", ""))
        if c["units"] == "unset" and ii.units != oi.units:
            bad.append(("units_not_carried_downstream", f"{ii.units}"))
        if p["units"] == "unset" and c["units"] != "unset" and not fm.data.tools.compatible_units(oi.units, c["units"]):
            bad.append(("units_not_carried_upstream", f"{oi.units}"))
        if c["foo"] in ("unset", "absent") and p["foo"] in ("v", "w") and ii.meta.get("foo") != p["foo"]:
            bad.append(("meta_not_carried_downstream", str(ii.meta.get("foo"))))
        if p["foo"] == "unset" and c["foo"] in ("v", "w") and oi.meta.get("foo") not in ("v", "w"):
            bad.append(("meta_not_carried_upstream", str(oi.meta.get("foo"))))
        if c["mask"] == "unset" and p["mask"] != "unset" and ii.mask is None:
            bad.append(("mask_not_carried_downstream", ""))
    elif via == "GridToValue":
        if not isinstance(ii.grid, fm.NoGrid):
            bad.append(("rewritten_grid_wrong", str(ii.grid)))
    elif via == "ValueToGrid":
        if located(ii.grid) != located(fm.UniformGrid((3, 4))):
            bad.append(("rewritten_grid_wrong", str(ii.grid)))
    elif via == "SumOverTime":
        if not fm.data.tools.compatible_units(ii.units, "mm"):
            bad.append(("rewritten_units_wrong", str(ii.units)))
    d = con.connector.in_data.get("i")
    if d is None:
        bad.append(("initial_data_missing_after_success", ""))
    elif via in (None, "Scale") and p["units"] != "unset" and c["units"] != "unset":
        want = 7.0 * FACT[p["units"]] / FACT[c["units"]]
        got = np.ma.getdata(d.magnitude).ravel()
        msk = np.ma.getmaskarray(d.magnitude).ravel()
        if not np.allclose(got[~msk], want):
            bad.append(("delivered_value", f"{got[:3]} want {want}"))
    return bad


def run_case(case):
    res = dict(n=0, nontrivial=0, counters={}, violations=[])
    cnt = res["counters"]
    for p, cs, via, order in case["items"]:
        if isinstance(via, list) and via[0] == "mix":
            # one consumer linked directly, another one through a metadata-rewriting adapter whose upstream request contradicts it
            out, prod, cons = run_one(p, cs, via, order)
            res["n"] += 1
            res["nontrivial"] += 1
            cnt["mix_" + out[0]] = cnt.get("mix_" + out[0], 0) + 1
            if out[0] == "ok":
                res["violations"].append(viol(dict(kind="metadata", clause="accepted_but_ends_conflict", via="mixed_fan_out"), f"producer={p} consumers={cs} via={via} order={order}: the direct consumer needs {cs[0]['grid']}, the adapter asks the same output for NoGrid, connect() succeeded", dict(items=[[p, cs, via, order]])))
            elif out[0] == "exc":
                res["violations"].append(viol(dict(kind="metadata", clause="non_metadata_exception", via="mixed_fan_out", error=out[1]), f"producer={p} consumers={cs} via={via} order={order}: {out[1]}: {out[2]}", dict(items=[[p, cs, via, order]])))
            continue
        if isinstance(via, list):  # relay family: via = ["relay", out_units, pull]
            res["n"] += 1
            res["nontrivial"] += 1
            oc, bad = run_relay(p, cs[0], via[1], via[2], order)
            cnt["relay_" + oc] = cnt.get("relay_" + oc, 0) + 1
            for clause, detail in bad:
                fp = dict(kind="metadata", clause=clause.split(":")[0], via="relay")
                res["violations"].append(viol(fp, f"producer={p} relay(out units {via[1]}, pull={via[2]}) consumer={cs[0]} order={order}: {clause}: {detail}", dict(items=[[p, cs, via, order]])))
            continue
        out, prod, cons = run_one(p, cs, via, order)
        if out[0] == "construct":
            cnt["not_constructible"] = cnt.get("not_constructible", 0) + 1
            continue
        res["n"] += 1
        if len(cs) > 1:
            vs = [verdict_fanout(p, cs)]
        else:
            vs = [verdict(p, c, via) for c in cs]
        want = None if any(v is None for v in vs) else ("reject" if "reject" in vs else "ok")
        cnt["expect_" + str(want)] = cnt.get("expect_" + str(want), 0) + 1
        cnt["outcome_" + out[0]] = cnt.get("outcome_" + out[0], 0) + 1
        res["nontrivial"] += 1 if want is not None and any(v == "unset" for side in [p] + list(cs) for v in side.values()) else 0
        bad = []
        if out[0] == "exc":
            bad.append(("non_metadata_exception:" + out[1], out[2]))
        elif want == "ok" and out[0] != "ok":
            bad.append(("rejected_but_ends_agree", out[1]))
        elif want == "reject" and out[0] == "ok":
            bad.append(("accepted_but_ends_conflict", f"verdicts {vs}"))
        if out[0] != "ok":
            for c in cons:
                if c.connector.in_data.get("i") is not None:
                    bad.append(("data_reached_consumer_despite_error", c.name))
        elif want == "ok":
            for c, con in zip(cs, cons):
                bad += after_success(p, c, via, prod, con)
        for clause, detail in bad:
            fp = dict(kind="metadata", clause=clause.split(":")[0])
            if ":" in clause:
                fp["error"] = clause.split(":")[1]
                fp["producer_mask"], fp["producer_grid"] = p["mask"], p["grid"]
            res["violations"].append(viol(fp, f"producer={p} consumers={cs} via={via} order={order}: {clause}: {detail}", dict(items=[[p, cs, via, order]])))
    res["sample"] = dict(producer=case["items"][0][0], consumers=case["items"][0][1], via=case["items"][0][2], order=case["items"][0][3])
    return res


# ---------------------------------------------------------------------------------------------------------------------------------
# grid objects with a history: the SAME grid objects serve several compositions one after the other in one process, and their public
# data_location setter is used in between. Every link attempt must end like the same attempt on freshly built grid objects in the same
# described state (differential oracle: state reached through a history vs. state built directly), and must obey the location rule.
POOL = ("A", "B", "R")  # two equal uniform grids and the same geometry as a rectilinear grid


def pool_grid(name, loc):
    if name == "R":
        return fm.RectilinearGrid([np.arange(4, dtype=float), np.arange(5, dtype=float)], data_location=loc)
    return fm.UniformGrid((4, 5), data_location=loc)


def hist_events():
    ev = [("loc", g) for g in POOL]
    for kind in ("direct", "scale", "regrid"):
        ev += [(kind, a, b) for a in POOL for b in POOL if a != b]
    return ev


def hist_link(kind, gp, gc):
    """one composition on the given grid objects; returns (outcome, shape of the data the consumer got while connecting)"""
    from datetime import timedelta

    got = []
    try:
        src = fm.components.CallbackGenerator(callbacks={"Out": (lambda t: np.arange(float(np.prod(gp.data_shape))).reshape(gp.data_shape, order=gp.order), fm.Info(None, grid=gp, units="m"))}, start=T0, step=timedelta(hours=1))
        if kind == "regrid":
            out_grid = fm.UniformGrid((3, 3))
            ad = D.RegridNearest(in_grid=gc, out_grid=out_grid)
            cgrid = out_grid
        else:
            ad = D.Scale(1.0) if kind == "scale" else None
            cgrid = gc
        con = fm.components.DebugConsumer(inputs={"In": fm.Info(None, grid=cgrid, units="m")}, callbacks={"In": lambda _n, d, _t: got.append(tuple(np.shape(d)))}, start=T0, step=timedelta(hours=1))
        comp = compose([src, con])
        if ad is None:
            src.outputs["Out"] >> con.inputs["In"]
        else:
            src.outputs["Out"] >> ad >> con.inputs["In"]
        comp.connect(T0)
        return ("ok", got[0] if got else None)
    except E.FinamMetaDataError:
        return ("meta", None)
    except Exception as e:  # noqa
        return ("exc:" + type(e).__name__, None)


def run_hist(case):
    res = dict(n=0, nontrivial=0, counters={}, violations=[])
    cnt = res["counters"]
    events = hist_events()
    fresh_memo = {}
    tails = [tuple(case["only"])] if "only" in case else itertools.product(range(len(events)), repeat=case["depth"] - 1)
    for tail in tails:
        seq = [events[case["first"]]] + [events[i] for i in tail]
        if seq[-1][0] == "loc":
            continue  # histories are judged at their link attempts; every prefix ending in one is a history of its own
        locs = {g: "CELLS" for g in POOL}
        objs = {g: pool_grid(g, "CELLS") for g in POOL}
        for k, ev in enumerate(seq):
            if ev[0] == "loc":
                locs[ev[1]] = "POINTS" if locs[ev[1]] == "CELLS" else "CELLS"
                objs[ev[1]].data_location = locs[ev[1]]
                continue
            kind, a, b = ev
            out = hist_link(kind, objs[a], objs[b])
            key = (kind, a, b, locs[a], locs[b])
            if key not in fresh_memo:
                fresh_memo[key] = hist_link(kind, pool_grid(a, locs[a]), pool_grid(b, locs[b]))
            want_rule = "ok" if locs[a] == locs[b] else "meta"
            res["n"] += 1
            cnt["hist_link_" + out[0]] = cnt.get("hist_link_" + out[0], 0) + 1
            if k > 0 and any(e[0] == "loc" for e in seq[:k]):
                res["nontrivial"] += 1
            bad = None
            if out != fresh_memo[key]:
                bad = ("history_changes_outcome", f"with history {out}, on fresh grid objects in the same state {fresh_memo[key]}")
            elif out[0] != want_rule:
                bad = ("accepted_but_ends_conflict" if out[0] == "ok" else "rejected_but_ends_agree" if out[0] == "meta" else "non_metadata_exception", f"{out}, data locations {locs[a]} vs {locs[b]}")
            if bad:
                res["violations"].append(viol(dict(kind="metadata", clause=bad[0], via="grid_objects_with_history:" + kind), f"history {seq[:k + 1]} (grids {POOL} start on CELLS, 'loc' toggles the data location through the public setter): {bad[1]}", dict(hist=True, first=case["first"], depth=case["depth"], only=list(tail))))
                break
        if len(res["violations"]) >= 3:
            break
    res["sample"] = dict(history=[list(e) for e in seq])
    return res


def replay(case):
    if case.get("hist"):
        return run_hist(case)["violations"]
    return run_case(case)["violations"]


GRIDS = ["unset", "nogrid", "G", "Glay", "Gloc", "Gother", "Uc", "Up"]
UNITS_ = ["unset", "m", "km", "s"]
MASKS = ["unset", "FLEX", "NONE", "nomask", "M", "M2"]
FOO = ["absent", "unset", "v", "w"]
BASE = dict(time="set", grid="G", units="m", mask="FLEX", foo="absent")


def side(**kw):
    return dict(BASE, **kw)


def mask_ok_for(grid, mask):
    return mask not in ("M", "M2", "Ma") or grid not in ("unset", "nogrid")


def full_product():
    """thorough tier: the complete five-field product on a direct link (time x grid x units x mask x extra key on both ends)"""
    for pt, ct in itertools.product(("unset", "set"), repeat=2):
        for pg, cg in itertools.product(GRIDS, repeat=2):
            for pu, cu in itertools.product(UNITS_, repeat=2):
                for pm, cm in itertools.product(MASKS, repeat=2):
                    if not (mask_ok_for(pg, pm) and mask_ok_for(cg, cm)):
                        continue
                    for pf, cf in itertools.product(FOO, repeat=2):
                        yield [side(time=pt, grid=pg, units=pu, mask=pm, foo=pf), [side(time=ct, grid=cg, units=cu, mask=cm, foo=cf)], None, ["P", "C0"]]


def items(tier):
    out = []
    orders1 = (["P", "C0"], ["C0", "P"])
    for via in (None, "Scale"):
        for order in orders1:
            # grid x mask jointly
            for pg, cg in itertools.product(GRIDS, repeat=2):
                for pm, cm in itertools.product(MASKS, repeat=2):
                    if mask_ok_for(pg, pm) and mask_ok_for(cg, cm):
                        out.append([side(grid=pg, mask=pm), [side(grid=cg, mask=cm)], via, list(order)])
            # time x units x extra meta jointly
            for pt, ct in itertools.product(("unset", "set"), repeat=2):
                for pu, cu in itertools.product(UNITS_, repeat=2):
                    for pf, cf in itertools.product(FOO, repeat=2):
                        out.append([side(time=pt, units=pu, foo=pf), [side(time=ct, units=cu, foo=cf)], via, list(order)])
            # grid x units x time
            for pg, cg in itertools.product(GRIDS, repeat=2):
                for pu, cu in itertools.product(UNITS_, repeat=2):
                    for pt in ("unset", "set"):
                        out.append([side(grid=pg, units=pu, time=pt), [side(grid=cg, units=cu)], via, list(order)])
    # orientation and spacing of structured grids x array masks: equal arrays on differently oriented grids hide different locations; rectilinear grids
    # with equal node count and extent but other interior nodes are different grids
    g2 = ["G", "Gflip", "Glay", "Erev", "Esri", "Runi", "R1", "R2", "Rdown"]
    m2 = ["FLEX", "nomask", "M", "Ma"]
    for via in (None, "Scale"):
        for order in orders1:
            for pg, cg in itertools.product(g2, g2 + ["unset"]):
                for pm, cm in itertools.product(m2, m2 + ["unset"]):
                    if mask_ok_for(cg, cm):
                        out.append([side(grid=pg, mask=pm), [side(grid=cg, mask=cm)], via, list(order)])
    # two consumers on one output: the first requesting target fills unset producer fields, later ones are checked against it
    c_opts = [side(grid=g, units=u) for g in ("unset", "G", "Glay", "Gother") for u in ("unset", "km", "s")]
    p_opts = [side(grid=g, units=u, time=t) for g in ("unset", "G", "Glay") for u in ("unset", "m") for t in ("unset", "set")]
    for p in p_opts:
        for c1, c2 in itertools.product(c_opts, repeat=2):
            for order in (["P", "C0", "C1"], ["C1", "C0", "P"], ["C0", "P", "C1"]):
                out.append([p, [c1, c2], None, order])
    # metadata-rewriting adapters
    for order in orders1:
        for pg in GRIDS:
            for cg in ("unset", "nogrid", "G"):
                out.append([side(grid=pg), [side(grid=cg)], "GridToValue", list(order)])
        for pg in ("unset", "nogrid", "G"):
            for cg in GRIDS:
                out.append([side(grid=pg), [side(grid=cg)], "ValueToGrid", list(order)])
        for pu in ("mm/h", "unset"):
            for cu in ("unset", "mm", "m", "s"):
                out.append([side(units=pu), [side(units=cu)], "SumOverTime", list(order)])
    # mixed fan-out: C0 directly (needs grid G), C1 behind ValueToGrid (asks the same output for NoGrid): a conflict in every order
    for pg in ("unset", "G"):
        for order in itertools.permutations(["P", "C0", "C1"]):
            out.append([side(grid=pg), [side(grid="G"), side(grid="G")], ["mix", None, "ValueToGrid"], list(order)])
            out.append([side(grid=pg), [side(grid="G"), side(grid="unset")], ["mix", None, "ValueToGrid"], list(order)])
    # a relay component whose output metadata is composed by transfer rules (copy from input, then override units and an extra key)
    for pu in ("m", "km", "mm/h"):
        for ou in ("m", "s", "mm"):
            for cu in ("unset", ou):
                for pull in (False, True):
                    for order in itertools.permutations(["P", "R", "C0"]):
                        out.append([side(units=pu), [side(units=cu, grid="unset")], ["relay", ou, pull], list(order)])
    return out


def run(tier, seed, agg):
    its = items(tier)
    if tier == "thorough":
        its += list(full_product())
    cases = [dict(items=its[i : i + 200]) for i in range(0, len(its), 200)]
    k = seed % len(cases)
    for r in pmap(run_case, cases[k:] + cases[:k]):
        agg.add(r)
    hcases = [dict(hist=True, first=i, depth=3 if tier == "quick" else 4) for i in range(len(hist_events()))]
    for r in pmap(run_hist, hcases[k % len(hcases):] + hcases[:k % len(hcases)]):
        agg.add(r)
    return dict(
        level="exploration",
        rule="producer/consumer field states enumerated as complete sub-products: grid{unset,NoGrid,G,G re-laid-out,G other location,other geometry}^2 x mask{unset,FLEX,NONE,nomask,M,M'}^2; time{unset,set}^2 x units{unset,m,km,s}^2 x extra key{absent,unset,v,w}^2; "
        "structured grids in five orientations/axis orders + four rectilinear node sets (equal extent, other interior nodes; downwards axis) x masks{FLEX, empty, physical set, fixed index array}, with cell centres and hidden locations computed here from the layout rules; "
        "grid^2 x units^2 x producer time; two consumers per output (12 producer x 12^2 consumer states, three listing orders); GridToValue / ValueToGrid / SumOverTime(per_time) links; link direct or through Scale; both listing orders; "
        "each run through the real Composition.connect. Oracle: an independent agree(producer, consumer) predicate; on success the input info is complete, describes the delivered locations, has convertible units and carries the other side's values for unset fields (both directions); "
        "on conflict FinamMetaDataError and no data at any consumer. non-trivial = decided cases with at least one unset field. "
        "Grid objects with a history: three persistent grid objects (two equal uniform grids, the same geometry as rectilinear grid) serve every sequence of 3 (thorough 4) events from {toggle the data location of one of them through the public setter, "
        "link producer-on-X to consumer-on-Y directly / through Scale / through RegridNearest(in_grid=Y)} - each link a new composition connected in the same process; every attempt must end exactly like the same attempt on freshly built grids in the same state and follow the location rule",
        bound=dict(note="quick: complete sub-products; thorough: additionally the full 5-field product (time x grid x units x mask x extra key on both ends, 1.98 million combinations) on a direct link"),
        assumptions=["a producer whose mask is unset, NONE-vs-empty-mask pairs: not classified by the statement (either outcome accepted, crashes still reported)", "extra metadata conflicts (v vs w) are not 'grids, units or masks' and must not be rejected"],
    )
