"""C20 - static slots are time independent; pull-based components are served on demand; WeightedSum (engines C/A/D)."""
import itertools

import numpy as np

from core.common import H, T0, VERIF, compose, fm, hrs
from core.pool import pmap
from core.runner import viol
from harness import acheck
from harness import families as F

from finam.components import WeightedSum

E = fm.errors
CLAUSES = ("C20.", "C01.", "C13.request_time")
TSEL = {"none": None, "before": T0 - H(5), "at": T0, "after": T0 + H(7)}


# ------------------------------------------------------------------ static slots: all event sequences
class CountOutput(fm.Output):
    calls = None

    def get_data(self, time, target):
        self.calls.append(target.name)
        return super().get_data(time, target)


def static_events():
    ev = [("push", 5.0), ("push", 6.0)]
    for k in ("s", "d"):
        for t in TSEL:
            ev.append(("pull", k, t))
    return ev


def run_static(seq, limit=None):
    out = CountOutput("o", fm.Info(time=None, grid=fm.NoGrid(), units="m"), static=True)
    out.calls = []
    if limit is not None:  # the rarely used per-slot memory limit: the single publication is spilled to disk
        import os

        loc = os.path.join(VERIF, "work", "C20_%d" % os.getpid())
        os.makedirs(loc, exist_ok=True)
        out.memory_limit, out.memory_location = limit, loc
    ins = {"s": fm.Input("s", fm.Info(time=None, grid=fm.NoGrid(), units="km"), static=True), "d": fm.Input("d", fm.Info(time=None, grid=fm.NoGrid(), units="m"), static=False)}
    for i in ins.values():
        out >> i
    for i in ins.values():
        i.ping()
    for i in ins.values():
        i.exchange_info()
    published = None
    fetched = False
    bad = []
    for step, ev in enumerate(seq):
        if ev[0] == "push":
            try:
                out.push_data(ev[1], None)
                if published is not None:
                    bad.append(("second_publication_accepted", f"step {step} {ev}"))
                else:
                    published = ev[1]
            except E.FinamStaticDataError:
                if published is None:
                    bad.append(("first_publication_refused", f"step {step}"))
            except Exception as e:  # noqa
                bad.append(("push_error:" + type(e).__name__, f"step {step} {ev}: {e}"))
        else:
            k, tn = ev[1], ev[2]
            ncalls = len([c for c in out.calls if c == "s"])
            try:
                d = ins[k].pull_data(TSEL[tn])
                if published is None:
                    bad.append(("pull_served_without_publication", f"step {step} {ev}"))
                else:
                    want = published / 1000.0 if k == "s" else published
                    if not (np.isclose(float(d.magnitude.ravel()[0]), want, rtol=1e-12) and str(d.units) == ("km" if k == "s" else "m") and d.shape == (1,)):
                        bad.append(("wrong_static_value", f"step {step} {ev}: got {d}, want {want}"))
                    if k == "s":
                        if fetched and len([c for c in out.calls if c == "s"]) != ncalls:
                            bad.append(("static_input_fetched_again", f"step {step}"))
                        fetched = True
            except E.FinamNoDataError:
                if published is not None:
                    bad.append(("pull_refused_after_publication", f"step {step} {ev}"))
            except Exception as e:  # noqa
                bad.append(("pull_error:" + type(e).__name__, f"step {step} {ev}: {str(e)[:80]}"))
        if bad:
            break
    if limit is not None:
        import shutil

        out.finalize()
        shutil.rmtree(loc, ignore_errors=True)
    return bad


# ------------------------------------------------------------------ merger
class Src(fm.TimeComponent):
    def __init__(self, outs, step=1):
        super().__init__()
        self._time, self.outs, self.step = T0, outs, step

    def _next_time(self):
        return self.time + H(self.step)

    special = None  # "zero_weights": all weights are 0 at odd hours; "nan": the first value is NaN (weight 0) at odd hours

    def val(self, n):
        u, v = self.outs[n]
        h = float(hrs(self.time))
        if self.special and int(h) % 2 == 1:
            if n.startswith("w"):
                return 0.0
            if self.special == "nan" and n == "v0":
                return float("nan")
        return v + h**2

    def _initialize(self):
        for n, (u, v) in self.outs.items():
            self.outputs.add(name=n, time=self.time, grid=fm.NoGrid(), units=u)
        self.create_connector()

    def _connect(self, st):
        self.try_connect(st, push_data={n: self.val(n) for n in self.outs})

    def _validate(self):
        pass

    def _update(self):
        self._time = self.next_time
        for n in self.outs:
            self.outputs[n].push_data(self.val(n), self.time)

    def _finalize(self):
        pass


class Snk(fm.TimeComponent):
    initial_pull = True  # False: nobody asks the merger for data while connecting; its first request comes from the first update

    def __init__(self, name, step):
        super().__init__()
        self._name, self._time, self.step, self.got = name, T0, step, []

    def _next_time(self):
        return self.time + H(self.step)

    def _initialize(self):
        self.inputs.add(name="i", time=self.time, grid=fm.NoGrid(), units=None)
        self.create_connector(pull_data=["i"] if self.initial_pull else [])

    def _connect(self, st):
        had = self.connector.in_data.get("i") is not None
        self.try_connect(st)
        d = self.connector.in_data.get("i")
        if not had and d is not None:
            self.got.append((0.0, d))

    def _validate(self):
        pass

    retries = 0

    def _update(self):
        nt = self.next_time
        for attempt in range(3):  # a transient refusal somewhere upstream (see Flaky) is handled by asking again
            try:
                d = self.inputs["i"].pull_data(nt)
                break
            except fm.errors.FinamNoDataError:
                if attempt == 2:
                    raise
                self.retries += 1
        self.got.append((float(hrs(nt)), d))
        self._time = nt

    def _finalize(self):
        pass


class Flaky(fm.Adapter):
    """fault injector (one deviation from the default environment answer): refuses its k-th request once with FinamNoDataError, either before
    or after it asked its own source; every other request is passed through"""

    def __init__(self, fail_at, mode):
        super().__init__()
        self.fail_at, self.mode, self.calls, self.fired = set(fail_at), mode, 0, 0

    def _get_data(self, time, target):
        self.calls += 1
        hit = self.calls in self.fail_at
        if hit and self.mode == "before":
            self.fired += 1
            raise fm.errors.FinamNoDataError("transient refusal")
        d = self.pull_data(time, target)
        if hit:
            self.fired += 1
            raise fm.errors.FinamNoDataError("transient refusal")
        return d


FACT = {"m": 1.0, "km": 1000.0, "mm": 0.001}


def run_merger(case):
    units, steps, sstep, order = case["units"], case["steps"], case["src_step"], case["order"]
    n = len(units)
    outs = {}
    for k, u in enumerate(units):
        outs[f"v{k}"] = (u, 1.0 + k)
        outs[f"w{k}"] = ("", 0.5 + k)
    s = Src(outs, sstep)
    s.special = case.get("special")
    w = WeightedSum([f"v{k}" for k in range(n)])
    snks = [Snk(f"K{j}", st) for j, st in enumerate(steps)]
    for k in snks:
        k.initial_pull = not case.get("no_initial_pull")
    comps = {"S": s, "W": w, **{k.name: k for k in snks}}
    c = compose([comps[x] for x in order])
    flaky = None
    for k in range(n):
        for j, (a, b) in enumerate(((f"v{k}", f"v{k}"), (f"w{k}", f"v{k}_weight"))):
            if case.get("fault") and case["fault"]["link"] == 2 * k + j:
                flaky = Flaky(case["fault"]["at"], case["fault"]["mode"])
                s[a] >> flaky >> w[b]
            else:
                s[a] >> w[b]
    for k in snks:
        w["WeightedSum"] >> k["i"]
    bad = []
    try:
        c.run(end_time=T0 + H(case["end"]))
    except Exception as e:  # noqa
        return [("exception", type(e).__name__, f"{type(e).__name__}: {str(e)[:100]}")]
    if flaky is not None:
        case["_fired"] = flaky.fired
        case["_retries"] = sum(k.retries for k in snks)
    for k in snks:
        if len(k.got) < 2:
            bad.append(("no_data", "", f"{k.name} received {len(k.got)} data sets"))
        for t, d in k.got:
            # nearest source publication to t (source publishes at multiples of sstep; ties accept either)
            cands = sorted({(t // sstep) * sstep, min(((t // sstep) + 1) * sstep, (t // sstep) * sstep if t % sstep == 0 else ((t // sstep) + 1) * sstep)})
            dist = min(abs(t - cc) for cc in cands)
            oks = []
            for tp in [cc for cc in cands if abs(t - cc) == dist]:
                if case.get("special") and int(tp) % 2 == 1:
                    want = float("nan") if case["special"] == "nan" else 0.0  # sum of value x weight, IEEE arithmetic: NaN x 0 = NaN
                else:
                    want = sum((1.0 + i + tp**2) * FACT[u] * (0.5 + i + tp**2) for i, u in enumerate(units))
                oks.append(want)
            got_m = float(d.magnitude.ravel()[0]) * FACT.get(str(d.units), float("nan"))
            if str(d.units) not in units:
                bad.append(("units", "", f"{k.name} t={t}: units {d.units} not among input units {units}"))
            elif not any(np.isclose(got_m, wv, rtol=1e-9, equal_nan=True) for wv in oks):
                bad.append(("value", "", f"{k.name} t={t}: got {d} = {got_m} m, want {oks} m"))
    return bad


def run_case(case):
    res = dict(n=0, nontrivial=0, counters={}, violations=[])
    if case["kind"] == "static":
        for seq in case["seqs"]:
            res["n"] += 1
            if any(e[0] == "push" for e in seq) and any(e[0] == "pull" for e in seq):
                res["nontrivial"] += 1
            for clause, detail in run_static(seq, case.get("limit")):
                res["violations"].append(viol(dict(kind="static", clause=clause), f"static slot sequence {seq} (memory limit {case.get('limit')}): {clause} {detail}", dict(kind="static", seqs=[seq], limit=case.get("limit"))))
        res["counters"]["static_sequences"] = len(case["seqs"])
        res["sample"] = dict(kind="static", seq=case["seqs"][-1])
    else:
        res["n"] = 1
        res["nontrivial"] = 1 if len(case["steps"]) > 1 else 0
        res["counters"]["merger_cases"] = 1
        outcome = run_merger(case)
        if case.get("fault"):
            res["counters"]["merger_fault_cases"] = 1
            res["counters"]["merger_faults_fired"] = case.pop("_fired", 0)
            res["counters"]["merger_consumer_retries"] = case.pop("_retries", 0)
        for how, err, detail in outcome:
            fp = dict(kind="merger", how=how)
            if err:
                fp["error"] = err
                if err == "FinamTimeError" and len(set(case["steps"])) > 1:
                    fp["structure"] = "shared_by_two_consumers_with_different_steps"
            res["violations"].append(viol(fp, f"WeightedSum units={case['units']} consumer steps={case['steps']} src step={case['src_step']} order={case['order']}: {detail}", case))
        res["sample"] = {k: case[k] for k in ("kind", "units", "steps", "src_step")}
    return res


def judge(cfg, res):
    out = []
    for outcome, path in res.get("nonfinal", []):
        if outcome[0] == "exc" and outcome[1] not in ("FinamTimeError", "FinamNoDataError"):
            out.append((dict(kind="unexpected_exception", error=outcome[1]), f"run() through pull-based component failed with {outcome[1]}: {outcome[2]}", path))
        elif outcome[0] == "circular":
            out.append((dict(kind="unexpected_exception", error="FinamCircularCouplingError"), f"acyclic composition reported circular: {outcome[1][:100]}", path))
    return out


def a_cases(tier):
    q = tier == "quick"
    cs = []
    e = 5 if q else 7
    for c1 in F.chains(["L", "F1", "S", "P1"] if q else ["L", "F1", "S", "P1", "A", "N", "Fh"], 1):
        for c2 in F.chains(["F1", "S", "P1"] if q else ["F1", "S", "P1", "Fh", "P2"], 1, src_pull_based=True):
            for order in F.orders(["A", "P", "B"], all_orders=not q):
                cs.append(F.viaP(c1, c2, end=e + 1, order=order))
            if not any(t[0] in "AM" for t in c1):
                # an integration adapter on the link into a pull-based component that is read twice per update gets repeated / non-monotone
                # requests (p0 >= p1): outside C12's premise, documented refusal of a zero-length interval - not generated
                cs.append(F.viaP2(c1, c2, c2, end=e))
                cs.append(F.viaPdup(c1, c2, c2, end=e, order=("B", "P", "A")))
                cs.append(F.viaPdup(c1, c2, [], end=e, order=("B", "P", "A")))
                cs.append(F.viaP2(c1, c2, [], end=e, order=("B", "P", "A")))
                cs.append(F.viaP2(c1, c2, [], end=e, order=("A", "P", "B")))
            cs.append(F.viaPP(c1, c2, [], end=e))
            cs.append(F.viaPP(c1, [], c2, end=e, order=("B", "Q", "P", "A")))
        cs.append(F.diamondP(end=e, ch=c1))
        cs.append(F.diamondP(end=e, ch=c1, order=("C", "P", "B", "A")))
    for order in (("A", "P", "B", "C"), ("C", "B", "P", "A"), ("A", "P", "C", "B")):
        cs.append(F.shareP(end=e, order=order))
    return cs


def run(tier, seed, agg):
    q = tier == "quick"
    depth = 4 if q else 5
    ev = static_events()
    seqs = [list(s) for n in range(1, depth + 1) for s in itertools.product(ev, repeat=n)]
    cases = [dict(kind="static", seqs=seqs[i : i + 2000]) for i in range(0, len(seqs), 2000)]
    short = [sq for sq in seqs if len(sq) <= 3]
    cases += [dict(kind="static", seqs=short[i : i + 500], limit=0) for i in range(0, len(short), 500)]
    for n in (1, 2, 3):
        for units in itertools.product(["m", "km", "mm"], repeat=n):
            for steps in ([1], [2], [1, 1], [1, 2], [2, 1], [2, 2], [1, 3], [3, 1]):
                for sstep in (1, 2):
                    names = ["S", "W"] + [f"K{j}" for j in range(len(steps))]
                    for order in (names, names[::-1]):
                        cases.append(dict(kind="merger", units=list(units), steps=steps, src_step=sstep, order=order, end=6))
                        if len(set(units)) == 1:
                            cases.append(dict(kind="merger", units=list(units), steps=steps, src_step=sstep, order=order, end=6, no_initial_pull=True))
    for special in ("zero_weights", "nan"):
        for n in (1, 2):
            for steps in ([1], [1, 1]):
                names = ["S", "W"] + [f"K{j}" for j in range(len(steps))]
                cases.append(dict(kind="merger", units=["m"] * n, steps=steps, src_step=1, order=names, end=6, special=special))
    # one transient fault (deviation bound 1; thorough: 2) on one link into the merger: the k-th request on that link is refused once, before or
    # after the adapter asked the source; the consumer (or the connect loop) asks again and must get the sum for the time it asks for
    for n in (1, 2):
        for steps in ([1], [1, 1], [2]):
            names = ["S", "W"] + [f"K{j}" for j in range(len(steps))]
            for order in (names, names[::-1]):
                for link in range(2 * n):
                    for mode in ("before", "after"):
                        ats = [[a] for a in range(1, 9)] + ([] if q else [[a, b] for a in range(1, 8) for b in range(a + 1, 9)])
                        for at in ats:
                            cases.append(dict(kind="merger", units=["m"] * n, steps=steps, src_step=1, order=order, end=6, fault=dict(link=link, at=at, mode=mode)))
    k = seed % len(cases)
    for r in pmap(run_case, cases[k:] + cases[:k]):
        agg.add(r)
    ac = a_cases(tier)
    ac += [dict(c, stateless=6 if tier == 'quick' else 8) for c in ac]
    acheck.run_cases(ac, CLAUSES, agg, judge, seed)
    return dict(
        level="model_checking",
        rule="(1) all event sequences up to the depth bound over {push v, push v', pull(static input, t), pull(non-static input, t)}, t in {None, before, at, after} on a real static Output; "
        "(2) explicit-state BFS over Composition.run for compositions with one or two pull-based components (series, two outputs, one output linked twice, merged producers, shared by two consumers), "
        "every provider invocation must carry the consumer's (delay-shifted) request time and the C01 monitors must stay green; (3) WeightedSum with 1-3 pairs, all unit combinations of {m,km,mm}, 1-2 consumers with equal/different steps, both listing orders; "
        "(4) the same mergers with one (thorough: up to two) transient fault on one of the links into the merger: the k-th request (k=1..8, connect phase included) is refused once with FinamNoDataError before or after the source was asked, the asking side repeats the request; every delivered sum must still be the sum for the requested time",
        bound=dict(static_depth=depth, horizon_h="5-6" if q else "7-8"),
        assumptions=["requests on a link into a pull-based component that are older than an earlier request (two readers at different paces) are a known limitation, see known_findings.json"],
    )


def replay(case):
    if "cfg" in case:
        return acheck.replay_case(case, CLAUSES, judge)
    return run_case(case)["violations"]
