"""C01 - the scheduler never updates a component before its input data exists (engine A)."""
import itertools

from harness import acheck
from harness import families as F

CLAUSES = ("C01.",)


def judge(cfg, res):
    """errors escaping run() that are data-availability errors count even if the pull wrapper missed them"""
    out = []
    for outcome, path in res.get("nonfinal", []):
        if outcome[0] == "exc" and outcome[1] in ("FinamTimeError", "FinamNoDataError"):
            if "zero-length" in outcome[2] or "already finished" in outcome[2]:
                continue  # refusing to go on because a needed source declared itself finished is the documented reaction, not a missing-data pull
            if not any(c == "C01.pull_error" for c, *_ in res["violations"]):
                out.append((dict(kind="time_or_nodata_error_escaped_run", error=outcome[1]), f"run() failed with {outcome[1]}: {outcome[2]}", path))
        elif outcome[0] == "exc" and cfg.get("expect_ok", True):
            out.append((dict(kind="unexpected_exception", error=outcome[1]), f"run() failed with {outcome[1]}: {outcome[2]}", path))
    return out


def cases(tier):
    cs = []
    q = tier == "quick"
    names = ["S", "L", "N", "T", "A", "M", "F1", "Fh", "P1", "U"] if q else ["S", "L", "N", "V", "T", "A", "As", "M", "F1", "Fh", "P1", "P2", "U"]
    end = 6 if q else 7  # (8 h with the 13-token alphabet took more than 9 CPU-hours without finishing; 7 h is what the thorough tier completes)
    for ch in F.chains(names, 2):
        # chains whose delay-to-pull adapters remember several requests have much larger state spaces: shorter horizon
        e2 = end if sum(t[1] for t in ch if t[0] == "P") < 2 else min(end, 7)
        for order in (("A", "B"), ("B", "A")):
            cs.append(F.pair(ch, end=e2, order=order))
    if not q:
        small = ["L", "A", "F1", "P1", "U", "S"]
        for ch in F.chains(small, 3):
            if len(ch) == 3:
                cs.append(F.pair(ch, end=6))
    # start offsets and no initial pull on a representative subset
    for ch in F.chains(["L", "A", "F1", "P1", "U", "N"] if q else names, 1):
        for starts in ((1, 0), (0, 1), (2, 0), (0, 2)):
            cs.append(F.pair(ch, end=end, starts=starts))
        cs.append(F.pair(ch, end=end, pull_initial=False))
    sub = ["L", "F1", "A"] if q else ["L", "F1", "A", "P1", "N"]
    e3 = 5 if q else 6
    for c1 in F.chains(sub, 1):
        for c2 in F.chains(sub, 1):
            for order in F.orders(["A", "B", "C"], all_orders=not q):
                cs.append(F.line3(c1, c2, end=e3, order=order))
            cs.append(F.join3(c1, c2, end=e3))
            cs.append(F.join3(c1, c2, end=e3, order=("C", "B", "A")))
            cs.append(F.fan3(c1, c2, end=e3))
            cs.append(F.fan3(c1, c2, end=e3, order=("C", "B", "A")))
    # steps off the hour lattice (halves, quarters) and incommensurable menus for producer and consumer
    for ch in ([], [F.TOK["L"]], [F.TOK["F1"]], [["F", 0.75]], [F.TOK["A"]], [F.TOK["P1"]], [F.TOK["N"]], [["T", 0.25]]):
        cs.append(F.pair(ch, menu=(0.5, 1.5), menu_b=(1, 1.25), end=4))
        cs.append(F.pair(ch, menu=(0.75, 1), menu_b=(0.5, 2), end=4, order=("B", "A"), starts=(0, 0.25)))
    # long runs with fixed irregular cyclic step lists (hundreds of updates; also steps of seconds and of days): anything that
    # depends on counters, list growth or accumulated drift
    import copy as _copy

    def fixed(cfg, lists, end):
        c = _copy.deepcopy(cfg)
        for x, fx in zip([x for x in c["comps"] if x["kind"] == "T"], lists):
            x["fixed"] = list(fx)
        c["end"] = end
        c["update_cap"] = 5000
        return c

    for ch in ([], [F.TOK["L"]], [F.TOK["A"]], [F.TOK["F1"]], [F.TOK["P1"]], [F.TOK["N"]], [["F", 0.5], ["F", 1.5]], [F.TOK["M"]]):
        cs.append(fixed(F.pair(ch), ([1, 2.5, 0.75], [2, 1, 1, 3.5]), 300))
        cs.append(fixed(F.pair(ch, order=("B", "A")), ([1 / 3600, 2 / 3600, 0.5], [1, 0.25]), 40))
        cs.append(fixed(F.pair(ch), ([24, 31 * 24, 29 * 24], [7 * 24, 24]), 24 * 400))
    for c1, c2 in (([], []), ([F.TOK["L"]], [F.TOK["F1"]]), ([F.TOK["A"]], [F.TOK["L"]])):
        cs.append(fixed(F.line3(c1, c2), ([1, 2], [3, 1, 1], [2.5]), 200))
        cs.append(fixed(F.join3(c1, c2), ([1], [0.5, 2], [3, 1]), 150))
    cs.append(fixed(F.viaP([], []), ([1, 2], [3, 1, 1]), 200))
    cs.append(fixed(F.viaPP([], [], []), ([0.75], [2, 1]), 150))
    # the same small systems at other time scales: one unit = 100 microseconds / one week
    for unit in (100, 7 * 86400 * 10**6):
        for ch in ([], [F.TOK["L"]], [F.TOK["F1"]], [F.TOK["A"]], [["F", 0.5], ["F", 1.5]]):
            cs.append(dict(F.pair(ch, end=5), unit_us=unit))
            cs.append(dict(F.pair(ch, end=5, order=("B", "A"), starts=(0, 1)), unit_us=unit))
        cs.append(dict(F.line3([], [F.TOK["F1"]], end=4), unit_us=unit))
        cs.append(dict(F.ring(2, {1: [["F", 4]]}, menu=(1, 2), end=5), unit_us=unit))
    # three adapters on a link: delay >> pass-through >> push-based (and the harmless orders)
    for ch in ([F.TOK["F1"], F.TOK["S"], F.TOK["L"]], [F.TOK["U"], F.TOK["S"], F.TOK["L"]], [F.TOK["Fh"], F.TOK["S"], F.TOK["A"]], [F.TOK["P1"], F.TOK["S"], F.TOK["N"]],
               [F.TOK["L"], F.TOK["S"], F.TOK["F1"]], [F.TOK["S"], F.TOK["F1"], F.TOK["L"]], [F.TOK["F1"], F.TOK["S"], F.TOK["S"], F.TOK["L"]]):
        cs.append(F.pair(ch, end=5))
        cs.append(F.pair(ch, end=5, order=("B", "A")))
    # a diamond of pull-based components (five components), the delayed input of the consumer first or second
    for d in ([["F", 1]], [["F", 2.5]], [["P", 1, 0]]):
        for order in (("A", "H", "P", "Q", "B"), ("B", "Q", "P", "H", "A")):
            cs.append(F.diamondPP(d, [], end=4, order=order))
            cs.append(F.diamondPP([], [], end=4, order=order))
    # one producer, a very slow and a trailing fast consumer: the producer runs far ahead, its output retains dozens of publications
    for ch in ([], [F.TOK["S"]]):
        c = F.fan3(ch, [], order=("A", "B", "C"))
        c["comps"][0]["fixed"], c["comps"][1]["fixed"], c["comps"][2]["fixed"] = [1], [48], [1 / 3, 0.25]
        c["end"], c["update_cap"] = 50, 20000
        cs.append(c)
        c2 = F.fan3(ch, [], order=("C", "B", "A"))
        c2["comps"][0]["fixed"], c2["comps"][1]["fixed"], c2["comps"][2]["fixed"] = [0.75], [40], [0.4]
        c2["end"], c2["update_cap"] = 42, 20000
        cs.append(c2)
    # a very fine producer under a coarse consumer: thousands of publications between two pulls
    for ch in (([F.TOK["L"]], [F.TOK["A"]]) if "c01" == "c01" else ([F.TOK["N"]],)):
        c = F.pair(ch)
        c["comps"][0]["fixed"], c["comps"][1]["fixed"] = [1 / 64], [26, 21.5]
        c["end"], c["update_cap"] = 30, 20000
        cs.append(c)
    # a producer whose publication is refused now and then (it hands in malformed data, catches the error and goes on): the driver must go by
    # what was really published
    for ch in ([], [F.TOK["L"]], [F.TOK["N"]], [F.TOK["A"]], [F.TOK["F1"]], [F.TOK["P1"]]):
        for rj in ([1.0], [2.0], [1.0, 2.0], [3.0]):
            c = F.pair(ch, end=5)
            c["comps"][0]["reject_at"] = rj
            cs.append(c)
    for rj in ([1.0], [2.0, 3.0]):
        c = F.line3([], [F.TOK["L"]], end=e3)
        c["comps"][1]["reject_at"] = rj
        cs.append(c)
    # components with their own clock (ITimeComponent implemented directly)
    for who in ((1,), (0,)):
        for ch in ([], [F.TOK["L"]], [F.TOK["F1"]], [F.TOK["A"]]):
            c = F.pair(ch, end=5)
            for k in who:
                c["comps"][k]["own_clock"] = True
            cs.append(c)
    # components that start at different times (three components)
    for starts in ((1, 0, 0), (0, 1, 0), (0, 0, 2), (2, 1, 0)):
        for c1, c2 in (([], []), ([F.TOK["L"]], [F.TOK["F1"]]), ([F.TOK["F1"]], [F.TOK["L"]]), ([F.TOK["A"]], [])):
            cs.append(F.line3(c1, c2, end=e3, starts=starts))
            cs.append(F.line3(c1, c2, end=e3, starts=starts, order=("C", "B", "A")))
    # a producer that declares itself FINISHED while its consumer still needs data: the driver may refuse to go on, but it must
    # never update the consumer without data
    for fin in (1, 2, 3):
        for ch in ([], [F.TOK["L"]], [F.TOK["F1"]]):
            for order in (("A", "B"), ("B", "A")):
                c = F.pair(ch, end=end, order=order)
                c["comps"][0]["finish_at"] = fin
                c["expect_ok"] = False
                cs.append(c)
        c = F.line3([], [], end=e3)
        c["comps"][1]["finish_at"] = fin
        c["expect_ok"] = False
        cs.append(c)
    # through pull-based components
    psub1 = ["L", "F1", "S", "P1"] if q else ["L", "F1", "S", "P1", "A", "N"]
    psub2 = ["F1", "S", "P1"] if q else ["F1", "S", "P1", "Fh"]
    for c1 in F.chains(psub1, 1):
        for c2 in F.chains(psub2, 1, src_pull_based=True):
            for order in F.orders(["A", "P", "B"], all_orders=not q):
                cs.append(F.viaP(c1, c2, end=e3 + 1, order=order))
            if any(t[0] in "AM" for t in c1):
                continue  # integration adapter on a link that is pulled twice per update: repeated / non-monotone requests are outside C12's premise
            cs.append(F.viaP2(c1, c2, [], end=e3))
            cs.append(F.viaP2(c1, [], c2, end=e3, order=("B", "P", "A")))
            cs.append(F.viaPdup(c1, [], c2, end=e3, order=("B", "P", "A")))
            cs.append(F.viaPdup(c1, c2, [], end=e3, order=("B", "P", "A")))
            cs.append(F.viaP2(c1, c2, [], end=e3, order=("P", "B", "A")))
        cs.append(F.viaPP(c1, [], [], end=e3))
        cs.append(F.viaPP([], c1 if F.chain_ok(c1, True) else [], [], end=e3, order=("B", "Q", "P", "A")))
        cs.append(F.diamondP(end=e3, ch=c1))
    for order in (("A", "P", "B", "C"), ("C", "B", "P", "A"), ("A", "P", "C", "B")):
        cs.append(F.shareP(end=e3, order=order))
    # delay-resolved rings (delay >= sum of the largest steps): the guarantee must hold throughout
    for mat in ([F.TOK["F4"]], [F.TOK["F2"], F.TOK["F2"]], [F.TOK["F1"], F.TOK["S"], ["F", 3]], [F.TOK["U"]], [["F", 4], F.TOK["S"]]):
        for k in (0, 1):
            for order in (("A", "B"), ("B", "A")):
                cs.append(F.ring(2, {k: mat}, menu=(1, 2), end=e3 + 1, order=order))
        cs.append(F.ring(2, {1: mat}, menu=(1, 2), end=e3, pnode=0))
    for mat in ([["F", 6]], [["F", 3], ["F", 3]], [F.TOK["U"]]):
        cs.append(F.ring(3, {2: mat}, menu=(1, 2), end=e3))
        cs.append(F.ring(3, {0: mat}, menu=(1, 2), end=e3, order=("C", "A", "B")))
    return cs


def with_stateless(cs, tier):
    """every configuration is explored twice: snapshot BFS (deep horizon, state merging) and stateless DFS (each execution one
    uninterrupted run() call, first choice points enumerated exhaustively) - the latter sees driver state carried across iterations"""
    out = list(cs)
    for c in cs:
        if any(x.get("fixed") for x in c["comps"]):
            continue
        m = max(len(x.get("menu", [1])) for x in c["comps"] if x["kind"] == "T")
        d = (5 if m >= 3 else 7) + (0 if tier == "quick" else 2)
        out.append(dict(c, stateless=d))
    return out


def run(tier, seed, agg):
    acheck.run_cases(with_stateless(cases(tier), tier), CLAUSES, agg, judge, seed)
    return dict(
        level="model_checking",
        rule="explicit-state BFS over the real Composition.run; every next_time is an environment choice from the step menu; "
        "states = canonical fingerprints of the live composition + bounded reference history; non-trivial = configuration in which the driver "
        "had to advance an upstream dependency first or had to break a tie between equally advanced components",
        bound=dict(step_menu="{1,2,3} h (2 components) / {1,2} h (3+)", horizon_h="6/5" if tier == "quick" else "9/7", chain_len=2 if tier == "quick" else 3),
        assumptions=["times on the hour lattice (delays also 2.5 h, extra 0.5 h)", "published value = publication time, so the delivered number identifies the publication", "reference link model written from the adapter documentation (core/refmodels.py)",
                     "domain exclusion: DelayToPush downstream of an integration adapter (zero-length interval is documented adapter behaviour)"],
    )


def replay(case):
    return acheck.replay_case(case, CLAUSES, judge)
