#!/venv/bin/python
"""Re-executes one replay record on the real code without the explorer.
exit 1 = the recorded violation reproduces, 0 = it does not (property holds on this input)."""
import importlib
import json
import os
import sys

if os.environ.get("PYTHONHASHSEED") != "0":
    os.environ["PYTHONHASHSEED"] = "0"
    os.environ.setdefault("PYTHONWARNINGS", "ignore")
    os.execv(sys.executable, [sys.executable] + sys.argv)
sys.path.insert(0, os.path.dirname(os.path.abspath(__file__)))
from core.runner import fp_key  # noqa: E402


def main():
    rec = json.load(open(sys.argv[1]))
    mod = importlib.import_module("checks." + rec["property"].lower())
    got = mod.replay(rec["case"])
    want = fp_key(rec["fingerprint"])
    hit = [v for v in got if fp_key(v["fp"]) == want]
    print(f"replay {rec['property']}: case={json.dumps(rec['case'])[:400]}")
    for v in got:
        print("  observed:", v["what"], fp_key(v["fp"]))
    if hit:
        print("REPRODUCED:", hit[0]["what"])
        return 1
    print("not reproduced")
    return 0


if __name__ == "__main__":
    sys.exit(main())
