#!/venv/bin/python
"""setup_cmd: verifies the runtime the checks need (offline, from files on disk only)."""
import json
import os
import subprocess
import sys

sys.path.insert(0, os.path.dirname(os.path.abspath(__file__)))
from core.common import VERIF, fm  # noqa: E402

print("finam from", fm.__file__)
import numpy, scipy, pint  # noqa: E402,F401

# known findings file parses
json.load(open(os.path.join(VERIF, "known_findings.json")))
# manifest validates (jsonschema lives in the tooling venv)
code = (
    "import json,jsonschema;"
    "jsonschema.validate(json.load(open('%s/MANIFEST.json')),json.load(open('/root/.vp/MANIFEST.schema.json')));print('manifest ok')" % VERIF
)
if os.path.exists("/root/.vp/MANIFEST.schema.json"):
    r = subprocess.run(["python3-vt", "-c", code])
    if r.returncode:
        sys.exit(r.returncode)
os.makedirs(os.path.join(VERIF, "evidence"), exist_ok=True)
os.makedirs(os.path.join(VERIF, "replays"), exist_ok=True)
print("selftest ok")
