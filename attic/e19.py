from h import *
import itertools, collections
from finam.sdk import CallbackOutput, CallbackInput
from finam.interfaces import NoBranchAdapter
class NB(fm.Adapter, NoBranchAdapter):
    def _get_data(self,time,target): return self.pull_data(time,target)
AD={"S":lambda: fm.adapters.Scale(1.0), "L":lambda: fm.adapters.LinearTime(), "N":lambda: NB(), "D":lambda: fm.adapters.DelayFixed(H(1)), "P":lambda: fm.adapters.DelayToPull()}
PUSHY={"L"}; NOBR={"L","N","P"}
class Src(fm.TimeComponent):
    def __init__(self,kind): super().__init__(); self.kind=kind; self._time=T0; self.connected=0
    def _next_time(self): return self.time+H(1)
    def _initialize(self):
        if self.kind=="push": self.outputs.add(name="o",time=self.time,grid=fm.NoGrid(),units="")
        elif self.kind=="static": self.outputs.add(name="o",time=None,grid=fm.NoGrid(),units="",static=True)
        else: self.outputs.add(CallbackOutput(callback=lambda c,t: 1.0, name="o", time=self.time, grid=fm.NoGrid(), units=""))
        self.create_connector()
    def _connect(self,st): self.connected+=1; self.try_connect(st,push_data={"o":1.0} if self.kind!="cb" else {})
    def _validate(self):pass
    def _update(self): self._time+=H(1)
    def _finalize(self):pass
class Snk(fm.TimeComponent):
    def __init__(self,kinds,name): super().__init__(); self.kinds=kinds; self._time=T0; self._name=name; self.connected=0
    def _next_time(self): return self.time+H(1)
    def _initialize(self):
        for k,kind in enumerate(self.kinds):
            if kind=="pull": self.inputs.add(name=f"i{k}",time=self.time,grid=fm.NoGrid(),units="")
            elif kind=="static": self.inputs.add(name=f"i{k}",time=None,grid=fm.NoGrid(),units="",static=True)
            else: self.inputs.add(CallbackInput(callback=lambda c,t: None, name=f"i{k}", time=self.time, grid=fm.NoGrid(), units=""))
        self.create_connector()
    def _connect(self,st): self.connected+=1; self.try_connect(st)
    def _validate(self):pass
    def _update(self): self._time+=H(1)
    def _finalize(self):pass
n=0; mism=[]
# single chain: src kind x adapters (len<=3) x sink kind, plus optional fan-out position with a second chain suffix
for sk in ["push","static","cb"]:
  for L in range(0,4):
    for ads in itertools.product("SLND",repeat=L):
      for ik in ["pull","static","cb"]:
        for fan in [None]+list(range(0,L+1)):   # fan-out at element index fan (0=output, k=adapter k) to a second direct pull input
          n+=1
          s=Src(sk); t=Snk([ik]+(["pull"] if fan is not None else []),"T")
          c=compose([s,t])
          ch=s.outputs["o"]; elems=[ch]
          for a in ads: ch = ch >> AD[a](); elems.append(ch)
          ch >> t.inputs["i0"]
          if fan is not None: elems[fan] >> t.inputs["i1"]
          # reference
          rej=False
          if ik=="static" and sk!="static": rej=True
          if fan is not None and sk!="static" and False: pass
          # dead link: pull-only source followed by push-needing element
          if sk=="cb" and (any(a in PUSHY for a in ads) or ik=="cb"): rej=True
          # second chain (fan) : prefix ads[:fan] then direct pull input
          if fan is not None and sk=="cb" and any(a in PUSHY for a in ads[:fan]): rej=True
          # branching: fan-out at or downstream of nobranch adapter
          if fan is not None and any(a in NOBR for a in ads[:fan]): rej=True
          try:
              c.connect(); got=False
          except fm.errors.FinamConnectError: got=True
          except Exception as e: got="EXC:"+type(e).__name__
          if got!=rej: mism.append((sk,ads,ik,fan,got,rej, s.connected+t.connected))
print(n,len(mism)); print(collections.Counter((m[4],m[5]) for m in mism))
for m in mism[:30]: print(m)
