from h import *
import itertools, collections
from fractions import Fraction as Fr
def mk(cls, **kw):
    out = fm.Output("o", fm.Info(time=T0, grid=fm.NoGrid(), units=""))
    inp = fm.Input("i", fm.Info(time=T0, grid=fm.NoGrid(), units=""))
    ad = cls(**kw)
    out >> ad >> inp
    inp.ping(); inp.exchange_info()
    return out, ad, inp
VAL = {0:5.0, 1:-2.0, 2:7.5, 3:1.0, 4:4.0, 5:-3.0, 6:9.0, 7:0.5, 8:2.0}
def ref(kind, hist, t, step=None):
    # hist: sorted times
    if not hist or t<hist[0] or t>hist[-1]: return "TIME"
    if t in hist: return VAL[t]
    lo=max(h for h in hist if h<t); hi=min(h for h in hist if h>t)
    if kind=="next": return VAL[hi]
    if kind=="prev": return VAL[lo]
    dt=(t-lo)/(hi-lo)
    if kind=="lin": return VAL[lo]+dt*(VAL[hi]-VAL[lo])
    if kind=="step": return VAL[hi] if dt>step else VAL[lo]
kinds={"next":(fm.adapters.NextTime,{}),"prev":(fm.adapters.PreviousTime,{}),"lin":(fm.adapters.LinearTime,{}),
       "step0":(fm.adapters.StepTime,{"step":0.0}),"step5":(fm.adapters.StepTime,{"step":0.5}),"step1":(fm.adapters.StepTime,{"step":1.0}),"step25":(fm.adapters.StepTime,{"step":0.25})}
bad=collections.Counter(); ex={}; n=0
# time unit: half hours: pubs from subsets of {0,2,3,6,8}; requests 0..8 non-decreasing; events interleaved, depth 6
pubs_all=[0,2,3,6,8]
def go(kind, cls, kw, step):
    global n
    def rec(state_events, pi, last, depth):
        global n
        if depth==0:
            n+=1
            out,ad,inp=mk(cls,**kw); hist=[]
            for ev in state_events:
                if ev[0]=="p":
                    out.push_data(VAL[ev[1]], T0+H(ev[1])); hist.append(ev[1])
                else:
                    t=ev[1]
                    exp=ref(kind.rstrip("0125") if kind.startswith("step") else kind, hist, t, step)
                    try: got=float(inp.pull_data(T0+H(t)).magnitude.ravel()[0])
                    except fm.errors.FinamTimeError: got="TIME"
                    except fm.errors.FinamNoDataError: got="TIME"
                    except Exception as e: got="EXC:"+type(e).__name__
                    if (exp=="TIME")!=(got=="TIME") or (exp!="TIME" and (isinstance(got,str) or abs(got-exp)>1e-9)):
                        bad[kind]+=1; ex.setdefault(kind,(state_events,ev,got,exp)); return
            return
        if pi<len(pubs_all): rec(state_events+[("p",pubs_all[pi])],pi+1,last,depth-1)
        for t in range(last,9): rec(state_events+[("r",t)],pi,t,depth-1)
    rec([],0,0,6)
for kind,(cls,kw) in kinds.items():
    go(kind,cls,kw,kw.get("step"))
print(n,dict(bad))
for k,v in ex.items(): print(k,v)
