from h import *
import itertools, collections
D=fm.adapters
def run(n, steps, delay, where, perm, end=14):
    log=[]
    comps=[TC(chr(65+k),[steps[k]],ins=["i"],outs=["o"],log=log,pull_initial=(k!=0)) for k in range(n)]
    c=compose([comps[i] for i in perm])
    for k in range(n):
        ch=comps[k].outputs["o"]
        if k==where and delay>0: ch=ch>>D.DelayFixed(H(delay))
        ch>>comps[(k+1)%n].inputs["i"]
    try:
        c.run(end_time=T0+H(end)); return ("OK",tuple(tuple(m.received["i"]) for m in comps))
    except Exception as e: return (type(e).__name__,)
bad=0;n_=0
for n in [2,3]:
  for steps in itertools.product([1,2,3],repeat=n):
    for delay in [0.5,1,1.5,2,2.5,3,4,5,6]:
      for where in range(n):
        outs=collections.Counter()
        for perm in itertools.permutations(range(n)):
            outs[run(n,steps,delay,where,perm)]+=1; n_+=1
        if len(outs)>1:
            bad+=1
            if bad<6: print(n,steps,delay,where,[(k[0],v) for k,v in outs.items()])
print(n_,bad)
