from h import *
import itertools, collections
D=fm.adapters
ADS={"-":None,"S":lambda:D.Scale(2.0),"L":lambda:D.LinearTime(),"N":lambda:D.NextTime(),"P":lambda:D.PreviousTime(),"A":lambda:D.AvgOverTime(),"U":lambda:D.SumOverTime(),"T":lambda:D.StepTime()}
def run(sa,sb,offa,offb,chain,end=12):
    log=[]
    A=TC("A",sa,outs=["o"],start=offa,log=log); B=TC("B",sb,ins=["i"],start=offb,log=log)
    c=compose([A,B])
    ch=A.outputs["o"]
    for a in chain:
        if ADS[a]: ch=ch>>ADS[a]()
    ch>>B.inputs["i"]
    try:
        c.run(end_time=T0+H(end)); return "OK"
    except Exception as e: return type(e).__name__+":"+str(e)[:60]
res=collections.Counter(); ex={}
for sa in [[1],[2],[3],[1,3],[2,1]]:
  for sb in [[1],[2],[3],[3,1],[1,2]]:
    for offa in [0,1,2]:
      for offb in [0,1,2]:
        for chain in ["-","S","L","N","P","A","U","T","SL","LS","AS"]:
            r=run(sa,sb,offa,offb,chain); res[(chain,r)]+=1; ex.setdefault((chain,r),(sa,sb,offa,offb))
for k,v in sorted(res.items()): print(k,v,ex[k] if k[1]!="OK" else "")
