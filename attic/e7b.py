from h import *
import itertools, collections
g1=fm.UniformGrid((3,4)); g1b=fm.UniformGrid((3,4),axes_reversed=True); g2=fm.UniformGrid((4,4))
M=np.array([[0,1,0],[0,0,1]],bool); M2=np.array([[1,0,0],[0,0,0]],bool)
GR={"none":None,"g1":g1,"g1b":g1b,"g2":g2,"nog":fm.NoGrid()}
UN={"none":None,"m":"m","km":"km","s":"s"}
MK={"flex":fm.Mask.FLEX,"nonem":fm.Mask.NONE,"M":M,"M2":M2,"MT":M.T.copy(),"unset":None}
TM={"none":None,"t0":T0}
res=collections.Counter(); ex={}
def compat_ref(pg,cg):
    if pg is None or cg is None: return True
    if isinstance(pg,fm.NoGrid) or isinstance(cg,fm.NoGrid): return isinstance(pg,fm.NoGrid) and isinstance(cg,fm.NoGrid)
    return pg.compatible_with(cg)
n=0
for pg,pu,pm,pt in itertools.product(GR,UN,["flex","nonem","M","unset"],TM):
  for cg,cu,cm,ct in itertools.product(GR,UN,["flex","nonem","M","M2","MT","unset"],TM):
    n+=1
    try:
        out=fm.Output("o", fm.Info(time=TM[pt], grid=GR[pg], units=UN[pu], mask=MK[pm]))
        inp=fm.Input("i", fm.Info(time=TM[ct], grid=GR[cg], units=UN[cu], mask=MK[cm]))
    except Exception as e:
        res[("construct",type(e).__name__)]+=1; continue
    out>>inp; inp.ping()
    try:
        inp.exchange_info(); r="OK"
    except fm.errors.FinamMetaDataError as e: r="META"
    except Exception as e: r="EXC:"+type(e).__name__+":"+str(e)[:50]
    # reference expectation
    exp="OK"
    if pg=="none" and cg=="none": exp="META"
    elif not compat_ref(GR[pg],GR[cg]): exp="META"
    if pu=="none" and cu=="none": exp="META"
    elif pu!="none" and cu!="none" and ((pu=="s")!=(cu=="s")): exp="META"
    if pt=="none" and ct=="none": exp="META"
    res[(r.split(":")[0] if r.startswith("EXC") else r,exp)]+=1
    ex.setdefault((r,exp),(pg,pu,pm,pt,cg,cu,cm,ct))
print(n)
for k,v in sorted(res.items(),key=str): print(k,v)
for k,v in ex.items():
    if k[0].startswith("EXC") or (k[0]=="OK" and k[1]=="META"): print(k,v)
