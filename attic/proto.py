from h import *
import copy, time as _t, collections, hashlib, pickle
class Pause(BaseException):
    def __init__(self, comp): self.comp=comp
class ENV: pass
class VC(TC):
    """time component whose next step is an environment choice from menu"""
    def __init__(self, name, menu, **kw):
        super().__init__(name, [menu[0]], **kw); self.menu=menu; self.pending=None
    def _next_time(self):
        if self.pending is None: raise Pause(self.name)
        return self.time + H(self.pending)
    def _update(self):
        nt=self._next_time(); self.pending=None
        for n in self.ins:
            d=self.inputs[n].pull_data(nt)
        self._time=nt
        for n in self.outs: self.outputs[n].push_data(self.val(), self.time)
def hrs(t): return None if t is None else (t-T0).total_seconds()/3600
def canon(c):
    key=[]
    for m in c._components:
        key.append((m.name, hrs(m._time), getattr(m,"pending",None), m.status.value))
        for n,o in m.outputs.items():
            key.append((n, tuple(hrs(t) for t,_ in o.data), tuple(sorted((getattr(k,"name",""),hrs(v)) for k,v in o._connected_inputs.items())), hrs(o._time)))
    for a in sorted(c._adapters,key=lambda a:a.name):
        key.append((a.name, tuple(hrs(t) for t,_ in a.data) , hrs(getattr(a,"_prev_time",None)), tuple(hrs(x) for x in getattr(a,"_pulls",[])), hrs(getattr(a,"push_time",None))))
    return tuple(key)
def build():
    A = VC("A",[1,2,3],ins=["i"],outs=["o"],pull_initial=False); B = VC("B",[1,2,3],ins=["i"],outs=["o"])
    c = compose([A,B])
    A.outputs["o"] >> fm.adapters.LinearTime().with_name("lin") >> B.inputs["i"]
    B.outputs["o"] >> fm.adapters.DelayFixed(H(6)).with_name("del") >> A.inputs["i"]
    c.connect()
    return c
END=T0+H(int(sys.argv[1]) if len(sys.argv)>1 else 10)
c0=build()
seen=set(); frontier=collections.deque(); trans=0; terminals=0
def expand(c):
    global trans, terminals
    try:
        c.run(end_time=END)
        terminals+=1
        return
    except Pause as p:
        who=[m for m in c._components if m.name==p.comp][0]
        for x in who.menu:
            c2=copy.deepcopy(c)
            [m for m in c2._components if m.name==p.comp][0].pending=x
            k=canon(c2); trans+=1
            if k not in seen: seen.add(k); frontier.append(c2)
t=_t.time()
expand(c0)
while frontier:
    expand(frontier.popleft())
print("states",len(seen),"trans",trans,"terminals",terminals,"sec",_t.time()-t)
