from h import *
import itertools, collections
def sig(perm, lperm, steps, adapters):
    log=[]
    A=TC("A",[steps[0]],outs=["o"],log=log); B=TC("B",[steps[1]],ins=["i"],outs=["o"],log=log); C=TC("C",[steps[2]],ins=["a","b"],log=log)
    comps=[A,B,C]
    c=compose([comps[i] for i in perm])
    links=[(A.outputs["o"],adapters[0],B.inputs["i"]),(A.outputs["o"],adapters[1],C.inputs["a"]),(B.outputs["o"],adapters[2],C.inputs["b"])]
    for li in lperm:
        o,a,i=links[li]
        ch=o
        if a: ch=ch>>a()
        ch>>i
    try:
        c.run(end_time=T0+H(12))
        return ("OK", tuple(hrs(m.time) for m in comps), tuple(sorted((m.name,k,tuple(v)) for m in comps for k,v in m.received.items())))
    except Exception as e:
        return ("EXC", type(e).__name__)
def hrs(t): return (t-T0).total_seconds()/3600
AD=[None, lambda: fm.adapters.Scale(2.0), lambda: fm.adapters.LinearTime(), lambda: fm.adapters.NextTime(), lambda: fm.adapters.AvgOverTime()]
n=0; bad=0
for steps in itertools.product([1,2,3],repeat=3):
    for ads in itertools.product(range(len(AD)),repeat=3):
        outs=collections.Counter()
        for perm in itertools.permutations(range(3)):
            for lperm in [(0,1,2),(2,1,0),(1,0,2)]:
                outs[sig(perm,lperm,steps,[AD[a] for a in ads])]+=1; n+=1
        if len(outs)>1:
            bad+=1
            if bad<4: print(steps,ads,[(k[0],k[1],v) for k,v in outs.items()])
print(n,bad)
