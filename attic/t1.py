from h import *
import copy, time
out = fm.Output("o", fm.Info(time=T0, grid=fm.NoGrid(), units=""))
ins = [fm.Input(f"i{k}", fm.Info(time=T0, grid=fm.NoGrid(), units="")) for k in range(2)]
ad = fm.adapters.LinearTime()
out >> ins[0]; out >> ad >> ins[1]
for i in ins: i.ping()
for i in ins: i.exchange_info()
for k in range(4): out.push_data(float(k), T0+H(k))
cl=(out,ad,ins)
t=time.time()
for _ in range(2000): c2=copy.deepcopy(cl)
print("cluster deepcopy ms", (time.time()-t)/2)
t=time.time()
for k in range(4,2004): out.push_data(float(k), T0+H(k)); ins[0].pull_data(T0+H(k)); ins[1].pull_data(T0+H(k))
print("push+2 pulls ms", (time.time()-t)/2)
# C05-like run rate
from e5b import sig, AD
t=time.time(); n=0
for steps in [(1,2,3),(2,1,1)]:
    for perm in __import__("itertools").permutations(range(3)):
        for _ in range(10): sig(perm,(0,1,2),steps,[AD[2],AD[1],AD[4]]); n+=1
print("run(3 comps, 12h) ms", (time.time()-t)*1000/n)
