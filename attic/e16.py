from h import *
import itertools, collections
bad=[]; n=0
def layouts(dim):
    for order in "FC":
        for rev in [False,True]:
            for inc in itertools.product([True,False],repeat=dim):
                yield order,rev,inc
def run(gs, gt, smask=None, tmask=None, cls=fm.adapters.RegridNearest, **kw):
    out = fm.Output("o", fm.Info(time=T0, grid=gs, units="m", mask=(smask if smask is not None else fm.Mask.NONE)))
    inp = fm.Input("i", fm.Info(time=T0, grid=gt, units="m", mask=(tmask if tmask is not None else fm.Mask.FLEX)))
    ad = cls(**kw)
    out >> ad >> inp
    inp.ping(); inp.exchange_info()
    sp = gs.data_points
    vals = np.arange(len(sp),dtype=float)*1.0+1
    d = vals.reshape(gs.data_shape, order=gs.order)
    if smask is not None: d=np.ma.array(d,mask=smask)
    out.push_data(d, T0)
    got = inp.pull_data(T0).magnitude[0]
    gflat = np.ma.getdata(got).ravel(order=gt.order); gm = np.ma.getmaskarray(got).ravel(order=gt.order)
    tp = gt.data_points
    sm = np.zeros(len(sp),bool) if smask is None else np.asarray(smask).ravel(order=gs.order)
    tm = np.zeros(len(tp),bool) if tmask is None else np.asarray(tmask).ravel(order=gt.order)
    for j,p in enumerate(tp):
        if tm[j]:
            if not gm[j]: return ("target mask lost",j)
            continue
        if gm[j]: return ("unexpected mask", j)
        dist=np.linalg.norm(sp-p,axis=1); dist[sm]=np.inf
        near = set(np.where(np.isclose(dist,dist.min()))[0])
        if int(round(gflat[j]-1)) not in near: return ("wrong",j,gflat[j],near)
    return None
for dim in [1,2]:
    dimsS = (4,3,2)[:dim]; dimsT=(3,4,3)[:dim]
    for (o1,r1,i1) in layouts(dim):
      for (o2,r2,i2) in layouts(dim):
        for l1 in ["CELLS","POINTS"]:
          for l2 in ["CELLS","POINTS"]:
            gs=fm.UniformGrid(dimsS,order=o1,axes_reversed=r1,axes_increase=i1,data_location=l1)
            gt=fm.UniformGrid(dimsT,spacing=(0.7,0.9,1.1)[:dim],origin=(0.1,0.2,0.3)[:dim],order=o2,axes_reversed=r2,axes_increase=i2,data_location=l2)
            n+=1
            try:
                r=run(gs,gt)
                if r: bad.append(((dim,o1,r1,i1,l1,o2,r2,i2,l2),r))
            except Exception as e:
                bad.append(((dim,o1,r1,i1,l1,o2,r2,i2,l2),("exc",type(e).__name__,str(e)[:80])))
print(n,len(bad)); print(collections.Counter(b[1][0] for b in bad))
for b in bad[:10]: print(b)
