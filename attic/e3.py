from h import *
from finam.sdk import CallbackOutput
class PB(fm.Component):
    def __init__(self, name, nout=1):
        super().__init__(); self._name=name; self.nout=nout; self.calls=[]
    def _initialize(self):
        self.inputs.add(name="i", time=None, grid=fm.NoGrid(), units=None)
        for k in range(self.nout):
            self.outputs.add(CallbackOutput(callback=self._get, name=f"o{k}", time=None, grid=fm.NoGrid(), units=""))
        self.create_connector(pull_data=["i"])
    def _connect(self, st):
        self.try_connect(st)
    def _get(self, caller, time):
        if self.status not in (ComponentStatus.VALIDATED,):
            d = self.connector.in_data["i"]
            if d is None: return None
            return d.magnitude*1.0
        self.calls.append((caller.name,(time-T0).total_seconds()/3600))
        return self.inputs["i"].pull_data(time).magnitude*1.0
    def _validate(self): pass
    def _update(self): pass
    def _finalize(self): pass

for nout in [1,2]:
    log=[]
    A = TC("A",[1],outs=["o"],log=log); P = PB("P",nout); B = TC("B",[3],ins=[f"i{k}" for k in range(nout)],log=log)
    c = compose([A,P,B])
    A.outputs["o"] >> P.inputs["i"]
    for k in range(nout): P.outputs[f"o{k}"] >> B.inputs[f"i{k}"]
    try:
        c.run(end_time=T0+H(6)); print(nout,"OK",B.received, P.calls, log)
    except Exception as e:
        print(nout,"EXC",type(e).__name__, str(e)[:300].replace("\n"," | ")); print(log)
