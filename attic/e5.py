from h import *
g = fm.UniformGrid((4,3))
print(g.data_shape, g.data_size)
g.data_location = "POINTS"
print("after set POINTS:", g.data_shape, g.data_size, g.data_points.shape)
g2 = fm.UniformGrid((4,3)); g2.data_location="POINTS"; print("fresh:", g2.data_shape)
g3 = fm.UniformGrid((4,3)); _=g3.data_shape; c=g3.copy(); c.data_location="POINTS"; print("copy:", c.data_shape, g3.data_shape)
# E6
import tempfile, os
for cls in [fm.adapters.LinearTime, fm.adapters.StepTime, fm.adapters.NextTime, fm.adapters.PreviousTime, fm.adapters.AvgOverTime, fm.adapters.SumOverTime]:
  for lim in [None, 0]:
    d = tempfile.mkdtemp()
    log=[]
    A = TC("A",[1],outs=["o"],log=log); B = TC("B",[2],ins=["i"],log=log)
    c = compose([A,B], slot_memory_limit=lim, slot_memory_location=d)
    A.outputs["o"] >> cls() >> B.inputs["i"]
    try:
        c.run(end_time=T0+H(4)); print(cls.__name__, lim, "OK", B.received, os.listdir(d))
    except Exception as e:
        print(cls.__name__, lim, "EXC", type(e).__name__, str(e)[:150].replace("\n"," | "), os.listdir(d))
