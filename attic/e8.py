from h import *
import itertools, random
# exhaustive small: push times 0,2,4,6 (subset orders), 2 consumers pulling non-decreasing times in 0..6
def run(events, ncons=2):
    out = fm.Output("o", fm.Info(time=T0, grid=fm.NoGrid(), units=""))
    ins = [fm.Input(f"i{k}", fm.Info(time=T0, grid=fm.NoGrid(), units="")) for k in range(ncons)]
    for i in ins: out >> i
    for i in ins: i.ping()
    for i in ins: i.exchange_info()
    hist=[]  # reference unlimited
    for ev in events:
        if ev[0]=="push":
            out.push_data(float(ev[1]), T0+H(ev[1])); hist.append(ev[1])
        else:
            _,k,t = ev
            # reference
            exp=None
            if hist and hist[0]<=t<=hist[-1]:
                # nearest; midpoint either
                best=min(abs(h-t) for h in hist); exp={h for h in hist if abs(h-t)==best}
            try:
                got=float(ins[k].pull_data(T0+H(t)).magnitude.ravel()[0])
            except fm.errors.FinamTimeError: got="TIME"
            except fm.errors.FinamNoDataError: got="NODATA"
            if exp is None:
                if got not in ("TIME","NODATA"): return ("should refuse", ev, got, hist)
            elif got not in exp: return ("wrong", ev, got, exp, [d[0] for d in out.data])
    return None
# enumerate: pushes at 0,2,4,6,8 in order interleaved with pulls
import sys
cnt=0; bad=[]
pushes=[0,2,4,6]
def gen(pi, last, depth, ev):
    global cnt
    if depth==0:
        cnt+=1; r=run(ev)
        if r: bad.append((list(ev),r))
        return
    if pi<len(pushes):
        gen(pi+1,last,depth-1,ev+[("push",pushes[pi])])
    for k in range(2):
        for t in range(last[k],7):
            l=list(last); l[k]=t
            gen(pi,l,depth-1,ev+[("pull",k,t)])
gen(0,[0,0],5,[])
print(cnt,len(bad)); print(bad[:5])
