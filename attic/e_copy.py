from h import *
import copy, pickle, time
log=[]
A = TC("A",[1,2],ins=["i"],outs=["o"],log=log,pull_initial=False); B = TC("B",[3],ins=["i"],outs=["o"],log=log)
c = compose([A,B])
A.outputs["o"] >> fm.adapters.LinearTime() >> B.inputs["i"]
B.outputs["o"] >> fm.adapters.DelayFixed(H(3)) >> A.inputs["i"]
c.connect()
t=time.time()
for _ in range(100):
    c2 = copy.deepcopy(c)
print("deepcopy ms", (time.time()-t)*10)
# step the copy manually using internals
tc=[m for m in c2._components]
u=c2._update_recursive(sorted(tc,key=lambda m:m.time)[0])
print(u.name, [m.time for m in c2._components], [m.time for m in c._components])
t=time.time(); n=0
for _ in range(200):
    u=c._update_recursive(sorted(c._components,key=lambda m:m.time)[0]); n+=1
print("update ms",(time.time()-t)*1000/n)
t=time.time()
for _ in range(50):
    log=[]
    A = TC("A",[1,2],ins=["i"],outs=["o"],log=log,pull_initial=False); B = TC("B",[3],ins=["i"],outs=["o"],log=log)
    c = compose([A,B])
    A.outputs["o"] >> fm.adapters.LinearTime() >> B.inputs["i"]
    B.outputs["o"] >> fm.adapters.DelayFixed(H(3)) >> A.inputs["i"]
    c.connect()
print("build+connect ms",(time.time()-t)*1000/50)
