from h import *
import itertools
def mk(order, rev, inc):
    return fm.UniformGrid((4,3), order=order, axes_reversed=rev, axes_increase=inc, data_location="POINTS")
res={}
for (o1,r1,i1),(o2,r2,i2) in itertools.product(itertools.product("FC",[False,True],[(True,True),(True,False),(False,True),(False,False)]), repeat=2):
    g1=mk(o1,r1,i1); g2=mk(o2,r2,i2)
    out = fm.Output("o", fm.Info(time=T0, grid=g1, units="m"))
    inp = fm.Input("i", fm.Info(time=T0, grid=g2, units="m"))
    out >> inp
    inp.ping()
    try:
        inp.exchange_info()
    except Exception as e:
        res[(o1,r1,i1,o2,r2,i2)] = "XINFO "+type(e).__name__; continue
    # field f(x,y)=10x+y at data points
    ax = g1.data_axes
    d = np.zeros(g1.data_shape)
    for idx in np.ndindex(*g1.data_shape):
        coords = [ax[k][idx[k]] for k in range(2)]
        if r1: coords = coords[::-1]
        d[idx] = 10*coords[0]+coords[1]
    out.push_data(d, T0)
    try:
        got = inp.pull_data(T0)
    except Exception as e:
        res[(o1,r1,i1,o2,r2,i2)] = "EXC "+type(e).__name__+" "+str(e)[:60]; continue
    got = got.magnitude[0]
    ax2=g2.data_axes; ok=True
    for idx in np.ndindex(*g2.data_shape):
        coords = [ax2[k][idx[k]] for k in range(2)]
        if r2: coords = coords[::-1]
        if got[idx] != 10*coords[0]+coords[1]: ok=False
    res[(o1,r1,i1,o2,r2,i2)] = "ok" if ok else "WRONG"
import collections
print(collections.Counter(v.split(" ")[0]+" "+(v.split(" ")[1] if " " in v else "") for v in res.values()))
for k,v in res.items():
    if v!="ok": print(k,v)
