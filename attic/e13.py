from h import *
import itertools, collections
def mk(adapters):
    out = fm.Output("o", fm.Info(time=T0, grid=fm.NoGrid(), units=""))
    inp = fm.Input("i", fm.Info(time=T0, grid=fm.NoGrid(), units=""))
    ch=out
    for a in adapters: ch = ch >> a
    ch >> inp
    inp.ping(); inp.exchange_info()
    reqs=[]
    og=out.get_data
    def gd(t,target): reqs.append((t-T0).total_seconds()/3600); return og(t,target)
    out.get_data=gd
    return out,inp,reqs
# publish hourly 0..10 all up front; value = t
def drive(adapters, requests, pub_upto=10):
    out,inp,reqs=mk(adapters)
    res=[]
    for t in range(pub_upto+1): out.push_data(float(t), T0+H(t))
    for t in requests:
        n0=len(reqs)
        try: v=float(inp.pull_data(T0+H(t)).magnitude.ravel()[0])
        except Exception as e: v=type(e).__name__
        res.append((t, reqs[n0:], v))
    return res
D=fm.adapters
print("fixed 2.5:", drive([D.DelayFixed(H(2.5))],[0,1,3,4,7]))
print("fixed 1 + fixed 2:", drive([D.DelayFixed(H(1)),D.DelayFixed(H(2))],[0,1,3,4,7]))
print("pull n=1:", drive([D.DelayToPull(steps=1)],[1,3,4,7]))
print("pull n=2 add 0.5:", drive([D.DelayToPull(steps=2,additional_delay=H(0.5))],[1,3,4,7,9]))
print("pull n=1 + fixed 1:", drive([D.DelayToPull(steps=1),D.DelayFixed(H(1))],[1,3,4,7]))
print("fixed 1 + pull 1:", drive([D.DelayFixed(H(1)),D.DelayToPull(steps=1)],[1,3,4,7]))
print("push:", drive([D.DelayToPush()],[1,3,12,15], pub_upto=10))
print("scale+fixed:", drive([D.Scale(2.0),D.DelayFixed(H(1)),D.Scale(1.0)],[0,1,3]))
# with_delay consistency w/ scheduler walk
import finam.schedule as S
