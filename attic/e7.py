from h import *
# WeightedSum: A(values, weights) -> WS -> B (and second consumer C at same times)
for ncons in [1,2]:
    log=[]
    A = TC("A",[1],outs=["v","w"],log=log)
    WS = fm.components.WeightedSum(inputs=["x"])
    Bs = [TC(f"B{k}",[2],ins=["i"],log=log) for k in range(ncons)]
    c = compose([A,WS]+Bs)
    A.outputs["v"] >> WS.inputs["x"]; A.outputs["w"] >> WS.inputs["x_weight"]
    for B in Bs: WS.outputs["WeightedSum"] >> B.inputs["i"]
    try:
        c.run(end_time=T0+H(4)); print(ncons,"OK",[B.received for B in Bs])
    except Exception as e:
        print(ncons,"EXC",type(e).__name__, str(e)[:200].replace("\n"," | ")); print(log)
