from h import *
import finam.schedule as S
# E2: chained delays on cycle A<->B step 1 both; delay on B->A link split
for split in [(2,0),(0.5,1.5),(1.5,0.5),(1,1)]:
    log=[]
    A = TC("A",[1],ins=["i"],outs=["o"],log=log, pull_initial=False); B = TC("B",[1],ins=["i"],outs=["o"],log=log)
    c = compose([A,B])
    A.outputs["o"] >> B.inputs["i"]
    ch = B.outputs["o"]
    for d in split:
        if d: ch = ch >> fm.adapters.DelayFixed(H(d))
    ch >> A.inputs["i"]
    # record actual requests at B.o
    reqs=[]
    og = B.outputs["o"].get_data
    def gd(t, target, og=og): reqs.append((t-T0).total_seconds()/3600); return og(t,target)
    B.outputs["o"].get_data = gd
    try:
        c.run(end_time=T0+H(5))
        print(split, "OK", A.received, reqs)
    except Exception as e:
        print(split, "EXC", type(e).__name__, str(e)[:300].replace("\n"," | ")); print(log)
