from h import *
import itertools, collections
from finam.tools import FromInput, FromOutput, FromValue
class CN(fm.TimeComponent):
    def __init__(self, name, ins, outs, start=0, step=1):
        """ins: {name: "decl" | "from_out:o"}; outs: {name: (info_mode, data_mode)} info_mode "decl"|"from_in:i"; data_mode "const"|"pull:i1,i2" """
        super().__init__(); self._name=name; self.ins=ins; self.outs=outs; self._time=T0+H(start); self.step=step
        self.statuses=[]; self.nconnect=0
    def _next_time(self): return self.time+H(self.step)
    def _initialize(self):
        in_rules={}; out_rules={}
        for n,mode in self.ins.items():
            if mode=="decl": self.inputs.add(name=n, time=self.time, grid=fm.NoGrid(), units=None)
            else:
                self.inputs.add(name=n); in_rules[n]=[FromOutput(mode.split(":")[1])]
        for n,(im,dm) in self.outs.items():
            if im=="decl": self.outputs.add(name=n, time=self.time, grid=fm.NoGrid(), units="m")
            elif im=="open": self.outputs.add(name=n, time=self.time, grid=None, units=None)
            else:
                self.outputs.add(name=n); out_rules[n]=[FromInput(im.split(":")[1]), FromValue("time", self.time)]
        pulls=set()
        for n,(im,dm) in self.outs.items():
            if dm.startswith("pull:"): pulls|=set(dm.split(":")[1].split(","))
        self.pulls=sorted(pulls | set(self.ins))   # pull everything initially
        self.create_connector(pull_data=self.pulls, in_info_rules=in_rules, out_info_rules=out_rules)
    def _connect(self, st):
        self.nconnect+=1
        push={}
        for n,(im,dm) in self.outs.items():
            if dm=="const": push[n]=100.0+ord(self.name[0])
            else:
                deps=dm.split(":")[1].split(",")
                if all(self.connector.in_data[d] is not None for d in deps):
                    push[n]=sum(float(self.connector.in_data[d].magnitude.ravel()[0]) for d in deps)+1.0
        self.try_connect(st, push_data=push)
        self.statuses.append(self.status.name)
    def _validate(self): pass
    def _update(self): self._time+=H(self.step)
    def _finalize(self): pass

def outcome(specs, links, perm, link_perm):
    comps={s[0]: CN(*s) for s in specs}
    order=[comps[specs[i][0]] for i in perm]
    c=compose(order)
    for li in link_perm:
        (a,o),(b,i)=links[li]
        comps[a].outputs[o] >> comps[b].inputs[i]
    try:
        c.connect()
        res=("OK",)
    except Exception as e:
        msg=str(e)
        if isinstance(e, fm.errors.FinamCircularCouplingError):
            names=msg.split("[")[1].split("]")[0]
            res=("CIRC", tuple(sorted(x.strip() for x in names.split(",") if x.strip())))
        else: res=("EXC", type(e).__name__, msg[:80])
        return res
    data={}
    for n,cm in comps.items():
        for i,d in cm.connector.in_data.items(): data[(n,i)]=None if d is None else float(d.magnitude.ravel()[0])
        for i in cm.ins: data[(n,i,"info")]=(str(cm.inputs[i].info.grid), str(cm.inputs[i].info.units), cm.inputs[i].info.time)
        for o in cm.outs: data[(n,o,"oinfo")]=(str(cm.outputs[o].info.grid), str(cm.outputs[o].info.units), cm.outputs[o].info.time, tuple((hrs(t)) for t,_ in cm.outputs[o].data))
    return ("OK", tuple(sorted(data.items(), key=str)))
def hrs(t): return None if t is None else (t-T0).total_seconds()/3600
def allorders(specs, links, tag):
    res=collections.Counter(); ex={}
    for perm in itertools.permutations(range(len(specs))):
        for lp in itertools.permutations(range(len(links))):
            r=outcome(specs,links,perm,lp); res[r]+=1; ex.setdefault(r,(perm,lp))
    print(tag, len(res), "distinct outcomes over", sum(res.values()))
    if len(res)>1 or True:
        for r,cnt in res.items(): print("   ",cnt, str(r)[:300], ex[r])
# shapes
# 1 chain: A const -> B (out data from pulled in, info from in) -> C
allorders([("A",{}, {"o":("decl","const")}), ("B",{"i":"decl"},{"o":("from_in:i","pull:i")}), ("C",{"i":"decl"},{})],
          [(("A","o"),("B","i")),(("B","o"),("C","i"))], "chain")
# 2 cycle of initial pulls A<->B
allorders([("A",{"i":"decl"}, {"o":("decl","pull:i")}), ("B",{"i":"decl"},{"o":("decl","pull:i")}), ("C",{"i":"decl"},{}), ("D",{}, {"o":("decl","const")}), ("E",{"i":"decl"},{})],
          [(("A","o"),("B","i")),(("B","o"),("A","i")),(("B","o"),("C","i")),(("D","o"),("E","i"))], "cycle+tail+free")
# 3 info from downstream: A.o open (grid None) -> B.i decl ; A in info from out
allorders([("S",{}, {"o":("decl","const")}),("A",{"i":"from_out:o"}, {"o":("open","pull:i")}), ("B",{"i":"decl"},{})],
          [(("S","o"),("A","i")),(("A","o"),("B","i"))], "info-upstream")
# 4 start offsets differ
allorders([("A",{}, {"o":("decl","const")},2), ("B",{"i":"decl"},{"o":("decl","pull:i")},0), ("C",{"i":"decl"},{},1)],
          [(("A","o"),("B","i")),(("B","o"),("C","i"))], "offsets")
