import sys, copy, collections, itertools, logging, time as _t
from datetime import datetime, timedelta
import numpy as np
import finam as fm
from finam.interfaces import ComponentStatus
T0=datetime(2000,1,1)
def H(n): return timedelta(hours=n)
def hrs(t): return None if t is None else (t-T0).total_seconds()/3600
class Pause(BaseException):
    def __init__(self, name): self.name=name
class World:
    """harness-side registry (not deep-copied with the composition: referenced through module global)"""
    cur=None
class MonOutput(fm.Output):
    def get_data(self, time, target):
        W=World.cur
        if W is not None: W.reqs.append((self.name, hrs(time), hrs(self.time), hrs(self.data[0][0]) if self.data else None))
        return super().get_data(time, target)
class VComp(fm.TimeComponent):
    def __init__(self, name, menu, ins=(), outs=(), start=0, pull_initial=True):
        super().__init__(); self._name=name; self.menu=list(menu); self.ins=list(ins); self.outs=list(outs)
        self._time=T0+H(start); self.pending=None; self.pull_initial=pull_initial
        self.npulls={n:0 for n in self.ins}; self.pull_times={n:[] for n in self.ins}
    def _next_time(self):
        if self.pending is None: raise Pause(self.name)
        return self.time+H(self.pending)
    def _initialize(self):
        for n in self.ins: self.inputs.add(name=n,time=self.time,grid=fm.NoGrid(),units=None)
        for n in self.outs: self.outputs.add(io=MonOutput(name=n,time=self.time,grid=fm.NoGrid(),units=""))
        self.create_connector(pull_data=self.ins if self.pull_initial else [])
    def val(self): return hrs(self.time)
    def _connect(self, st):
        before={n:self.connector.in_data.get(n) is not None for n in (self.ins if self.pull_initial else [])}
        self.try_connect(st, push_data={n:self.val() for n in self.outs})
        for n,b in before.items():
            if not b and self.connector.in_data.get(n) is not None: self.pull_times[n].append(hrs(st))
    def _validate(self): pass
    def _update(self):
        W=World.cur
        nt=self._next_time()
        W.on_update_entry(self, nt)
        self.pending=None
        for n in self.ins:
            d=self.inputs[n].pull_data(nt); self.pull_times[n].append(hrs(nt))
        self._time=nt
        for n in self.outs: self.outputs[n].push_data(self.val(), self.time)
    def _finalize(self): pass
# ---- link spec & reference model
D=fm.adapters
def mk_adapter(tok):
    k=tok[0]
    if k=="S": return D.Scale(1.0)
    if k=="L": return D.LinearTime()
    if k=="N": return D.NextTime()
    if k=="A": return D.AvgOverTime()
    if k=="F": return D.DelayFixed(H(tok[1]))
    if k=="P": return D.DelayToPull(steps=tok[1])
    if k=="U": return D.DelayToPush()
BUFFERING={"L","N","A"}
class Link:
    def __init__(self, src, so, dst, di, chain): self.src=src; self.so=so; self.dst=dst; self.di=di; self.chain=chain  # chain source->sink
def required(link, t, comps):
    """reference: publication time the source must have reached for a pull at t (hours); None = no requirement"""
    src=comps[link.src]; init=hrs(src.outputs[link.so].info.time) if False else link.init
    treq=t
    for tok in reversed(link.chain):
        k=tok[0]
        if k in BUFFERING: return treq
        if k=="F": treq=max(treq-tok[1], init)
        elif k=="P":
            pt=comps[link.dst].pull_times[link.di]; n=tok[1]
            base = pt[-n] if len(pt)>=n else init
            treq=max(base, init)
        elif k=="U": return None
    return treq
class Run:
    def __init__(self, specs, links, order, end):
        self.viol=[]; self.reqs=[]; self.updates=0
        self.links=links
        World.cur=self
        self.comps={s[0]:VComp(*s[:2], **s[2]) for s in specs}
        self.c=fm.Composition([self.comps[n] for n in order], print_log=False, log_level=logging.CRITICAL)
        for l in links:
            ch=self.comps[l.src].outputs[l.so]
            for tok in l.chain: ch=ch>>mk_adapter(tok)
            ch>>self.comps[l.dst].inputs[l.di]
            l.init=hrs(self.comps[l.src]._time)
        self.end=end
    def on_update_entry(self, U, nt):
        comps=self.comps; self.updates+=1
        times={n:hrs(c._time) for n,c in comps.items()}
        mn=min(times.values()); M={n for n,t in times.items() if t==mn}
        def lacking(X):
            res=[]
            c=comps[X]
            if c.pending is None: return None
            t=times[X]+c.pending
            for l in self.links:
                if l.dst!=X: continue
                R=required(l,t,comps)
                if R is None: continue
                if hrs(comps[l.src].outputs[l.so].time) < R: res.append(l.src)
            return res
        # U must lack nothing
        lu=lacking(U.name)
        if lu: self.viol.append(("C01-lacking-at-update",U.name,times,lu))
        # justification
        seen=set(); stack=list(M); unknown=False
        while stack:
            x=stack.pop()
            if x in seen: continue
            seen.add(x)
            lx=lacking(x)
            if lx is None: unknown=True; continue
            stack.extend(lx)
        if U.name not in seen and not unknown: self.viol.append(("C02-unjustified",U.name,times,{n:comps[n].pending for n in comps}))
def canon(run):
    key=[]
    for n,m in sorted(run.comps.items()):
        key.append((n,hrs(m._time),m.pending,m.status.value,tuple((k,tuple(v[-3:])) for k,v in sorted(m.pull_times.items()))))
        for on,o in m.outputs.items():
            key.append((on,tuple(hrs(t) for t,_ in o.data),tuple(sorted((getattr(k,"name",""),hrs(v)) for k,v in o._connected_inputs.items())),hrs(o._time)))
    for a in sorted(run.c._adapters,key=lambda a:(a.name,id(a)%1)):
        key.append((a.name,tuple(hrs(t) for t,_ in a.data),hrs(getattr(a,"_prev_time",None)),tuple(hrs(x) for x in getattr(a,"_pulls",[])),hrs(getattr(a,"push_time",None))))
    return tuple(key)
def explore(specs, links, order, end, maxstates=200000):
    r0=Run(specs,links,order,end)
    seen=set(); q=collections.deque([r0]); trans=0; out=collections.Counter(); ex={}
    def note(kind, r, extra=None):
        out[kind]+=1; ex.setdefault(kind,(extra,))
    while q:
        r=q.popleft(); World.cur=r
        try:
            r.c.run(end_time=T0+H(end)); note("done",r)
        except Pause as p:
            for x in r.comps[p.name].menu:
                r2=copy.deepcopy(r); r2.comps[p.name].pending=x; trans+=1
                k=canon(r2)
                if k not in seen: seen.add(k); q.append(r2)
        except fm.errors.FinamCircularCouplingError as e: note("circular",r,str(e)[:80])
        except Exception as e: note("EXC:"+type(e).__name__,r,str(e)[:100])
        for v in r.viol: out[v[0]]+=1; ex.setdefault(v[0],v)
        r.viol=[]
        if len(seen)>maxstates: out["CAP"]+=1; break
    return len(seen),trans,out,ex
if __name__=="__main__":
    toks=[("S",),("L",),("N",),("A",),("F",1),("F",2.5),("P",1),("P",2),("U",)]
    chains=[()]+[(t,) for t in toks]+[(a,b) for a in toks for b in toks]
    t0=_t.time(); tot=collections.Counter(); examples={}
    for ci,ch in enumerate(chains):
        specs=[("A",[1,2,3],dict(outs=["o"])),("B",[1,2,3],dict(ins=["i"]))]
        links=[Link("A","o","B","i",ch)]
        for order in [("A","B"),("B","A")]:
            s,tr,out,ex=explore(specs,links,order,8)
            cls="".join(t[0] for t in ch)
            for k,v in out.items():
                if k not in ("done",): tot[(k,cls)]+=v; examples.setdefault((k,cls),ex[k])
            tot[("states",)]+=s; tot[("trans",)]+=tr
    print("sec",_t.time()-t0)
    for k,v in sorted(tot.items(),key=str): print(k,v, examples.get(k,"")[:3] if k in examples else "")
