from h import *
# static output
out = fm.Output("o", fm.Info(time=None, grid=fm.NoGrid(), units="m"), static=True)
i1 = fm.Input("i1", fm.Info(time=None, grid=fm.NoGrid(), units="km"), static=True)
i2 = fm.Input("i2", fm.Info(time=None, grid=fm.NoGrid(), units="m"), static=False)
out >> i1; out >> i2
i1.ping(); i2.ping(); i1.exchange_info(); i2.exchange_info()
out.push_data(5.0, None)
for t in [None, T0, T0+H(5), T0-H(5)]:
    for i in (i1,i2):
        try: print(i.name, t, i.pull_data(t))
        except Exception as e: print(i.name,t,"EXC",type(e).__name__,e)
try: out.push_data(6.0,None)
except Exception as e: print("second push:",type(e).__name__)
# push with time for static
out2 = fm.Output("o", fm.Info(time=None, grid=fm.NoGrid(), units="m"), static=True)
i3 = fm.Input("i3", fm.Info(time=None, grid=fm.NoGrid(), units="m"), static=True); out2>>i3; i3.ping(); i3.exchange_info()
out2.push_data(1.0, T0); print(out2.data, out2.time)
# C08 payloads
g=fm.UniformGrid((3,4))  # cells (2,3)
for payload in [np.arange(6.).reshape(2,3), np.arange(6.), list(range(6)), np.arange(6.).reshape(1,2,3), fm.UNITS.Quantity(np.arange(6.).reshape(2,3),"km"), np.ma.array(np.arange(6.).reshape(2,3),mask=[[0,1,0],[0,0,1]]), np.arange(6.).reshape(3,2), fm.UNITS.Quantity(np.arange(6.),"s")]:
    out = fm.Output("o", fm.Info(time=T0, grid=g, units="m")); inp=fm.Input("i", fm.Info(time=T0, grid=g, units="cm")); out>>inp; inp.ping(); inp.exchange_info()
    try:
        out.push_data(payload, T0); r=inp.pull_data(T0); print(type(payload).__name__, getattr(payload,'shape',None), "->", r.shape, r.units, type(r.magnitude).__name__, r.magnitude.ravel(order='F')[:6])
    except Exception as e: print(type(payload).__name__, getattr(payload,'shape',None), "EXC", type(e).__name__, str(e)[:80])
# shared memory
out = fm.Output("o", fm.Info(time=T0, grid=g, units="m")); inp=fm.Input("i", fm.Info(time=T0, grid=g, units="m")); out>>inp; inp.ping(); inp.exchange_info()
a=np.arange(6.).reshape(2,3); out.push_data(a,T0)
for name,b in [("same",a),("view",a[:, :]),("flatview",a.reshape(-1)),("copy",a.copy()),("T.T",a.T.T)]:
    try: out.push_data(b,T0+H(1)); print(name,"accepted")
    except Exception as e: print(name,"refused",type(e).__name__)
