from h import *
import itertools, collections
g1=fm.UniformGrid((3,4)); g1b=fm.UniformGrid((3,4),axes_reversed=True)
M=np.array([[0,1,0],[0,0,1]],bool); M2=np.array([[1,0,0],[0,0,0]],bool); Z=np.zeros((2,3),bool)
MK={"unset":None,"flex":fm.Mask.FLEX,"nonem":fm.Mask.NONE,"nomask":np.ma.nomask,"zeros":Z,"M":M,"M2":M2}
def lay(m,g): 
    if isinstance(m,np.ndarray) and g is g1b: return m.T.copy()
    return m
rows=[]
for pg,cg in [(g1,g1),(g1,g1b),(g1b,g1)]:
  for pm,cm in itertools.product(MK,MK):
    try:
        out=fm.Output("o", fm.Info(time=T0, grid=pg, units="m", mask=lay(MK[pm],pg)))
        inp=fm.Input("i", fm.Info(time=T0, grid=cg, units="m", mask=lay(MK[cm],cg)))
    except Exception as e: rows.append((pm,cm,"construct "+type(e).__name__)); continue
    out>>inp; inp.ping()
    try:
        inp.exchange_info(); r="OK mask="+("None" if inp.info.mask is None else ("arr" if isinstance(inp.info.mask,np.ndarray) else str(inp.info.mask)))
    except fm.errors.FinamMetaDataError: r="META"
    except Exception as e: r="EXC "+type(e).__name__
    rows.append(((pg is g1b, cg is g1b),pm,cm,r))
tab=collections.defaultdict(dict)
for lay_,pm,cm,r in rows: tab[(pm,cm)].setdefault(r,[]).append(lay_)
print("producer,consumer -> result")
for (pm,cm),v in tab.items(): print(f"{pm:7s} {cm:7s}", {k:len(x) for k,x in v.items()})
