from h import *
from e3 import PB
log=[]
A = TC("A",[1],ins=["i"],outs=["o"],log=log,pull_initial=False); P = PB("P",1)
c = compose([A,P])
A.outputs["o"] >> P.inputs["i"]
P.outputs["o0"] >> A.inputs["i"]
try:
    c.run(end_time=T0+H(6)); print("OK",A.received, P.calls, log)
except Exception as e:
    print("EXC",type(e).__name__, str(e)[:300].replace("\n"," | ")); print(log)
