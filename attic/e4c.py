from h import *
import itertools, collections
D=fm.adapters
def mkdelay(kind, total):
    if kind=="F": return [D.DelayFixed(H(total))]
    if kind=="FF": return [D.DelayFixed(H(total/2)),D.DelayFixed(H(total/2))]
    if kind=="FsF": return [D.DelayFixed(H(total-1)),D.Scale(1.0),D.DelayFixed(H(1))]
    if kind=="Pull": return [D.DelayToPull(steps=1)]
    if kind=="Pull2": return [D.DelayToPull(steps=2)]
    if kind=="Push": return [D.DelayToPush()]
    if kind=="FL": return [D.DelayFixed(H(total)),D.LinearTime()]
    if kind=="LF": return [D.LinearTime(),D.DelayFixed(H(total))]
    if kind=="none": return []
def run(n, steps, kind, where, perm, end=14):
    log=[]
    comps=[TC(chr(65+k),[steps[k]],ins=["i"],outs=["o"],log=log,pull_initial=(k!=0)) for k in range(n)]
    c=compose([comps[i] for i in perm])
    total=sum(steps)
    for k in range(n):
        ch=comps[k].outputs["o"]
        if k==where:
            for a in mkdelay(kind,total): ch=ch>>a
        ch>>comps[(k+1)%n].inputs["i"]
    try:
        c.run(end_time=T0+H(end)); return "OK"
    except Exception as e: return type(e).__name__+":"+str(e)[:50].replace("\n"," ")
res=collections.Counter(); ex={}
for n in [2,3]:
  for steps in itertools.product([1,2,3],repeat=n):
    for kind in ["F","FF","FsF","Pull","Pull2","Push","FL","LF","none"]:
      for where in range(n):
        for perm in itertools.permutations(range(n)):
            r=run(n,steps,kind,where,perm); res[(n,kind,r)]+=1; ex.setdefault((n,kind,r),(steps,where,perm))
for k,v in sorted(res.items()): print(k,v,ex[k] if k[2]!="OK" else "")
