from h import *
import itertools
from finam.data.grid_tools import NODE_COUNT
bad=[]; n=0
def check(g, tag):
    shp=tuple(int(s) for s in g.data_shape)
    dp=g.data_points
    if dp.shape[0]!=int(np.prod(shp)): bad.append((tag,"size",shp,dp.shape)); return
    ax=g.data_axes
    if tuple(len(a) for a in ax)!=shp: bad.append((tag,"axes-shape",shp,[len(a) for a in ax])); return
    for idx in np.ndindex(*shp):
        coords=[ax[k][idx[k]] for k in range(g.dim)]
        if g.axes_reversed: coords=coords[::-1]
        flat=np.ravel_multi_index(idx,shp,order=g.order)
        if not np.allclose(dp[flat],coords): bad.append((tag,"point",idx,dp[flat],coords)); return
    # cells reference existing points, centers = mean of nodes
    cells=g.cells; pts=g.points
    if cells.max()>=len(pts) or cells.min()<0: bad.append((tag,"cellref")); return
    cc=g.cell_centers
    for ci,c in enumerate(cells):
        nn=NODE_COUNT[g.cell_types[ci]]
        if not np.allclose(pts[c[:nn]].mean(axis=0),cc[ci]): bad.append((tag,"center",ci)); return
    if len(cells)!=g.cell_count or len(pts)!=g.point_count: bad.append((tag,"counts"))
    u=g.to_unstructured()
    if not (np.allclose(u.data_points,dp) and u.data_shape==(dp.shape[0],)): bad.append((tag,"unstruct"))
for dim in [1,2,3]:
  for dims in itertools.product([1,2,3],repeat=dim):
    for order in "FC":
      for rev in [False,True]:
        for inc in itertools.product([True,False],repeat=dim):
          for loc in ["CELLS","POINTS"]:
            n+=1
            tag=(dims,order,rev,inc,loc)
            try:
                g=fm.UniformGrid(dims,order=order,axes_reversed=rev,axes_increase=inc,data_location=loc)
                check(g,tag)
            except Exception as e:
                bad.append((tag,"exc",type(e).__name__,str(e)[:80]))
print(n,len(bad))
import collections
print(collections.Counter(b[1] for b in bad))
for b in bad[:25]: print(b)
