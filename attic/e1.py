from h import *
# E1: DelayFixed upstream of LinearTime, A step 1, B step 5
for order in ["delay_up", "delay_down"]:
    log=[]
    A = TC("A",[1],outs=["o"],log=log); B = TC("B",[5],ins=["i"],log=log)
    c = compose([A,B])
    if order=="delay_up":
        A.outputs["o"] >> fm.adapters.DelayFixed(H(3)) >> fm.adapters.LinearTime() >> B.inputs["i"]
    else:
        A.outputs["o"] >> fm.adapters.LinearTime() >> fm.adapters.DelayFixed(H(3)) >> B.inputs["i"]
    try:
        c.run(end_time=T0+H(12))
        print(order, "OK", B.received, [l for l in log][:12])
    except Exception as e:
        print(order, "EXC", type(e).__name__, str(e)[:200]); print(log)
