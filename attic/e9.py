from h import *
import copy, collections, itertools, time as _t, sys
D=fm.adapters
def build(kinds):
    out = fm.Output("o", fm.Info(time=T0, grid=fm.NoGrid(), units=""))
    ins=[]; ads=[]
    for k,kind in enumerate(kinds):
        inp=fm.Input(f"i{k}", fm.Info(time=T0, grid=fm.NoGrid(), units=""))
        if kind=="d": out>>inp; ads.append(None)
        elif kind=="S": a=D.Scale(1.0); out>>a>>inp; ads.append(a)
        elif kind=="L": a=D.LinearTime(); out>>a>>inp; ads.append(a)
        elif kind=="F": a=D.DelayFixed(H(1)); out>>a>>inp; ads.append(a)
        ins.append(inp)
    for i in ins: i.ping()
    for i in ins: i.exchange_info()
    return out,ins,ads
class St:
    def __init__(s,kinds): s.kinds=kinds; s.out,s.ins,s.ads=build(kinds); s.hist=[]; s.last=[None]*len(kinds); s.trace=[]
def ref_nearest(hist,t):
    if not hist or t<hist[0] or t>hist[-1]: return "TIME"
    best=min(abs(h-t) for h in hist); return {float(h) for h in hist if abs(h-t)==best}
def ref_lin(hist,t):
    if not hist or t<hist[0] or t>hist[-1]: return "TIME"
    return {float(t)}   # value=time ⇒ linear interpolant of identity = t
def key(s):
    newest=s.hist[-1] if s.hist else 0
    ret=tuple(hrs(t)-newest for t,_ in s.out.data)
    lasts=tuple(None if l is None else l-newest for l in s.last)
    bufs=tuple(tuple(hrs(t)-newest for t,_ in a.data) if a is not None and hasattr(a,"data") and a.data is not a.__class__.__mro__ else () for a in s.ads)
    # reference suffix
    ml=[l for l in s.last if l is not None]
    suffix=tuple(h-newest for h in s.hist) if (len(ml)<len(s.last)) else tuple(h-newest for h in s.hist if h>=max([x for x in s.hist if x<=min(ml)] or [s.hist[0]]))
    return (ret,lasts,bufs,suffix, tuple((a._pulls if hasattr(a,'_pulls') else None) for a in s.ads if a is not None and False))
def hrs(t): return (t-T0).total_seconds()/3600
def run(kinds,depth):
    s0=St(kinds); seen={key(s0)}; q=collections.deque([(s0,0)]); trans=0; viol=[]; evictions=0
    while q:
        s,d=q.popleft()
        if d==depth: continue
        newest=s.hist[-1] if s.hist else None
        evs=[("push",g) for g in ([0] if newest is None else [1,2,3])]
        if newest is not None:
            for k in range(len(kinds)):
                lo=s.last[k] if s.last[k] is not None else s.hist[0]-0.5
                t=lo
                while t<=newest+0.5:
                    evs.append(("pull",k,t)); t+=0.5
        for ev in evs:
            s2=copy.deepcopy(s); trans+=1; s2.trace=s.trace+[ev]
            if ev[0]=="push":
                t=(newest if newest is not None else 0)+ev[1]
                n0=len(s2.out.data)
                s2.out.push_data(float(t),T0+H(t)); s2.hist.append(t)
            else:
                _,k,t=ev
                kind=kinds[k]
                treq = t if kind!="F" else max(t-1,0)
                exp = ref_lin(s2.hist,t) if kind=="L" else ref_nearest(s2.hist,treq)
                n0=len(s2.out.data)
                try: got=float(s2.ins[k].pull_data(T0+H(t)).magnitude.ravel()[0])
                except fm.errors.FinamTimeError: got="TIME"
                if len(s2.out.data)<n0: evictions+=1
                if (exp=="TIME")!=(got=="TIME") or (exp!="TIME" and got not in exp): viol.append(("value",s2.trace,got,exp)); continue
                if got=="TIME": continue   # refused pulls do not move last request
                s2.last[k]=t
                # bound: registered end points' last requests as seen by the output
                reqs=[]
                for kk,kd in enumerate(kinds):
                    if kd=="L": reqs.append(s2.hist[-1])           # buffering adapter pulls at every notification
                    elif s2.last[kk] is None: reqs=None; break
                    else: reqs.append(s2.last[kk] if kd!="F" else max(s2.last[kk]-1,0))
                if reqs is not None:
                    bound=sum(1 for h in s2.hist if h>min(reqs))+1
                    if len(s2.out.data)>bound: viol.append(("bound",s2.trace,[hrs(t) for t,_ in s2.out.data],min(reqs),bound))
            k_=key(s2)
            if k_ not in seen: seen.add(k_); q.append((s2,d+1))
    return len(seen),trans,evictions,viol
if __name__=="__main__":
    for kinds in [("d",),("d","d"),("d","S"),("d","L"),("d","F"),("L","F")]:
        t0=_t.time(); r=run(kinds,int(sys.argv[1])); print(kinds,"states",r[0],"trans",r[1],"evictions",r[2],"viol",len(r[3]),"sec",round(_t.time()-t0,1))
        for v in r[3][:2]: print("   ",v)
