from h import *
import itertools
from finam.data import tools as T
bad=[]; n=0
for shape in [(1,),(3,),(2,2),(2,3),(3,1),(1,2,2),(2,2,2),(2,1,3)]:
    size=int(np.prod(shape))
    for order in "CF":
        for bits in range(2**size):
            mask=np.array([(bits>>i)&1 for i in range(size)],dtype=bool).reshape(shape)
            for quant in [False,True]:
                data=np.arange(size,dtype=float).reshape(shape)+1
                md=np.ma.array(data,mask=mask,shrink=False)
                x = T.UNITS.Quantity(md,"m") if quant else md
                n+=1
                try:
                    c=T.to_compressed(x,order=order)
                    cm = c.magnitude if quant else c
                    exp = data.ravel(order=order)[~mask.ravel(order=order)]
                    if not np.array_equal(np.asarray(cm),exp): bad.append(("compress",shape,order,bits,quant)); continue
                    back=T.from_compressed(c,shape,order=order,mask=mask)
                    bm = back.magnitude if quant else back
                    if not (np.ma.isMaskedArray(bm) and np.array_equal(np.ma.getmaskarray(bm),mask) and np.array_equal(bm.data[~mask],data[~mask])):
                        bad.append(("round",shape,order,bits,quant))
                    if quant and str(back.units)!="m": bad.append(("units",shape,order,bits))
                except Exception as e:
                    bad.append(("exc",shape,order,bits,quant,type(e).__name__,str(e)[:60]))
print(n,len(bad)); print(bad[:10])
