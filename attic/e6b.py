import itertools, collections
from h import *
import e6
from e6 import CN, compose
bad=collections.Counter(); ex={}; ncalls=0
class CN2(CN):
    def snap(self):
        c=self.connector
        return (tuple(sorted((k,v is not None) for k,v in c.in_infos.items())),tuple(sorted((k,v is not None) for k,v in c.out_infos.items())),
                tuple(sorted(c.infos_pushed.items())),tuple(sorted(c.data_pushed.items())),tuple(sorted((k,v is not None) for k,v in c.in_data.items())),
                tuple(sorted((n,len(o.data),o.has_info()) for n,o in self.outputs.items())))
    def _connect(self, st):
        global ncalls
        b=self.snap(); super()._connect(st); a=self.snap(); ncalls+=1
        c=self.connector
        complete=all(v for _,v in a[0]) and all(v for _,v in a[1]) and all(v for _,v in a[2]) and all(v for _,v in a[3]) and all(v for _,v in a[4])
        exp="CONNECTED" if complete else ("CONNECTING" if a!=b else "CONNECTING_IDLE")
        if self.status.name!=exp: bad[(self.status.name,exp)]+=1; ex.setdefault((self.status.name,exp),(self.name,b,a))
e6.CN=CN2
shapes=[
 ([("A",{}, {"o":("decl","const")}), ("B",{"i":"decl"},{"o":("from_in:i","pull:i")}), ("C",{"i":"decl"},{})],[(("A","o"),("B","i")),(("B","o"),("C","i"))]),
 ([("A",{"i":"decl"}, {"o":("decl","pull:i")}), ("B",{"i":"decl"},{"o":("decl","pull:i")}), ("C",{"i":"decl"},{})],[(("A","o"),("B","i")),(("B","o"),("A","i")),(("B","o"),("C","i"))]),
 ([("A",{}, {"o":("decl","const"),"p":("decl","const")},2), ("B",{"i":"decl","j":"decl"},{"o":("from_in:j","pull:i,j")},0), ("C",{"i":"decl"},{},1)],[(("A","o"),("B","i")),(("A","p"),("B","j")),(("B","o"),("C","i"))]),
]
for specs,links in shapes:
    for perm in itertools.permutations(range(len(specs))):
        for lp in itertools.permutations(range(len(links))):
            e6.outcome(specs,links,perm,lp)
print(ncalls,dict(bad)); print(ex)
