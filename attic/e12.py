from h import *
import itertools, collections
from fractions import Fraction as Fr
VAL = {0:Fr(5), 1:Fr(-2), 2:Fr(15,2), 3:Fr(1), 4:Fr(4), 5:Fr(-3), 6:Fr(9), 7:Fr(1,2), 8:Fr(2)}
def interp_integral(hist, a, b, step):
    """exact integral over [a,b] (hours) of interpolant of hist (linear if step None else step-position), in value*hours"""
    tot=Fr(0)
    for lo,hi in zip(hist[:-1],hist[1:]):
        x0=max(Fr(a),Fr(lo)); x1=min(Fr(b),Fr(hi))
        if x1<=x0: continue
        L=Fr(hi-lo)
        if step is None:
            f=lambda x: VAL[lo]+(x-lo)/L*(VAL[hi]-VAL[lo])
            tot+=(x1-x0)*(f(x0)+f(x1))/2
        else:
            s=lo+Fr(step)*L
            tot+=max(Fr(0),min(x1,s)-x0)*VAL[lo] if min(x1,s)>x0 else 0
            tot+=max(Fr(0),x1-max(x0,s))*VAL[hi] if x1>max(x0,s) else 0
    return tot
def mk(cls, units="", **kw):
    out = fm.Output("o", fm.Info(time=T0, grid=fm.NoGrid(), units=units))
    inp = fm.Input("i", fm.Info(time=T0, grid=fm.NoGrid(), units=None))
    ad = cls(**kw)
    out >> ad >> inp
    inp.ping(); inp.exchange_info()
    return out, ad, inp
bad=collections.Counter(); ex={}; n=0
pubs=[0,2,3,6,8]
from fractions import Fraction
for step in [None,0.0,0.25,0.5,1.0]:
  for which in ["avg","sum_pt","sum_abs"]:
    # all partitions of [0,8] with integer boundaries: subsets of {1..7}
    for r in range(0,4):
      for cuts in itertools.combinations(range(1,8),r):
        bounds=[0]+list(cuts)+[8]
        n+=1
        if which=="avg": out,ad,inp=mk(fm.adapters.AvgOverTime,units="mm",step=step)
        elif which=="sum_pt": out,ad,inp=mk(fm.adapters.SumOverTime,units="mm/h",step=step,per_time=True)
        else: out,ad,inp=mk(fm.adapters.SumOverTime,units="mm",step=step,per_time=False)
        # publish all first? no: interleave: publish as needed (minimal: publish until >= request)
        hist=[]; pi=0
        def pub_until(t):
            global pi
            while pi<len(pubs) and (not hist or hist[-1]<t):
                out.push_data(float(VAL[pubs[pi]]), T0+H(pubs[pi])); hist.append(pubs[pi]); pi+=1
        pi=0
        pub_until(0)
        try:
            first=inp.pull_data(T0)
            for a,b in zip(bounds[:-1],bounds[1:]):
                pub_until(b)
                got=inp.pull_data(T0+H(b))
                I=interp_integral(pubs,a,b,step)   # uses all pubs: fine since interpolant only depends on bracket
                if which=="avg": exp=float(I/(b-a)); g=got.to("mm").magnitude.ravel()[0]
                elif which=="sum_pt": exp=float(I); g=got.to("mm").magnitude.ravel()[0]
                else:
                    # plain weighted sum: sum over intervals of fraction-weighted values (no time scaling)
                    tot=Fr(0)
                    for lo,hi in zip(pubs[:-1],pubs[1:]):
                        x0=max(a,lo); x1=min(b,hi)
                        if x1<=x0: continue
                        tot+=interp_integral([lo,hi],x0,x1,step)/(hi-lo)
                    exp=float(tot); g=got.to("mm").magnitude.ravel()[0]
                if abs(g-exp)>1e-9:
                    bad[(which,step)]+=1; ex.setdefault((which,step),(bounds,(a,b),g,exp)); break
        except Exception as e:
            bad[(which,step,"exc")]+=1; ex.setdefault((which,step,"exc"),(bounds,type(e).__name__,str(e)[:100]))
print(n,dict(bad))
for k,v in ex.items(): print(k,v)
