import sys, logging, itertools, time as _time
from datetime import datetime, timedelta
import numpy as np
import finam as fm
from finam.interfaces import ComponentStatus

T0 = datetime(2000,1,1)
def H(n): return timedelta(hours=n)

class TC(fm.TimeComponent):
    """generic time component: steps = cyclic list of hours; inputs: names; outputs: names"""
    def __init__(self, name, steps, ins=(), outs=(), start=0, log=None, pull_initial=True):
        super().__init__()
        self._name = name
        self.steps = list(steps); self.k = 0
        self.ins = list(ins); self.outs = list(outs)
        self._time = T0 + H(start)
        self.log = log if log is not None else []
        self.pull_initial = pull_initial
        self.received = {n: [] for n in self.ins}
    def _next_time(self):
        return self.time + H(self.steps[self.k % len(self.steps)])
    def _initialize(self):
        for n in self.ins:
            self.inputs.add(name=n, time=self.time, grid=fm.NoGrid(), units=None)
        for n in self.outs:
            self.outputs.add(name=n, time=self.time, grid=fm.NoGrid(), units="")
        self.create_connector(pull_data=self.ins if self.pull_initial else [])
    def val(self):
        return (self.time - T0).total_seconds()/3600.0
    def _connect(self, start_time):
        self.try_connect(start_time, push_data={n: self.val() for n in self.outs})
    def _validate(self): pass
    def _update(self):
        nt = self._next_time()
        self.k += 1
        self.log.append(("update", self.name, (self._time-T0).total_seconds()/3600, (nt-T0).total_seconds()/3600))
        for n in self.ins:
            d = self.inputs[n].pull_data(nt)
            self.received[n].append(((nt-T0).total_seconds()/3600, float(np.asarray(fm.data.get_magnitude(d)).ravel()[0])))
        self._time = nt
        for n in self.outs:
            self.outputs[n].push_data(self.val(), self.time)
    def _finalize(self): pass

def compose(comps, **kw):
    return fm.Composition(comps, print_log=False, log_level=logging.CRITICAL, **kw)
