import multiprocessing as mp, collections, time, sys
import protoA as P
toks=[("S",),("L",),("N",),("A",),("F",1),("F",2.5),("P",1),("P",2),("U",)]
chains=[()]+[(t,) for t in toks]+[(a,b) for a in toks for b in toks]
def job(args):
    ch,order=args
    specs=[("A",[1,2,3],dict(outs=["o"])),("B",[1,2,3],dict(ins=["i"]))]
    links=[P.Link("A","o","B","i",ch)]
    s,tr,out,ex=P.explore(specs,links,order,6)
    return ch,order,s,tr,dict(out),{k:str(v)[:300] for k,v in ex.items()}
if __name__=="__main__":
    t0=time.time()
    with mp.Pool(16) as pool:
        res=pool.map(job,[(ch,o) for ch in chains for o in [("A","B"),("B","A")]],chunksize=1)
    tot=collections.Counter(); exs={}
    for ch,order,s,tr,out,ex in res:
        cls="".join(t[0] for t in ch)
        tot[("states",)]+=s; tot[("trans",)]+=tr
        for k,v in out.items():
            if k!="done": tot[(k,cls)]+=v; exs.setdefault((k,cls),ex.get(k))
    print("sec",time.time()-t0)
    for k,v in sorted(tot.items(),key=str): print(k,v,exs.get(k,""))
