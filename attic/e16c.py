from h import *
import itertools, collections, random
random.seed(2)
def layouts(dim):
    for order in "FC":
        for rev in [False,True]:
            for inc in itertools.product([True,False],repeat=dim):
                yield order,rev,inc
def aff(p): return 2.0+3.0*p[...,0]-1.5*p[...,1]
def run(gs, gt, smask=None, fill=False, tmask=None):
    out = fm.Output("o", fm.Info(time=T0, grid=gs, units="m", mask=(smask if smask is not None else fm.Mask.NONE)))
    inp = fm.Input("i", fm.Info(time=T0, grid=gt, units="m", mask=(tmask if tmask is not None else fm.Mask.FLEX)))
    ad = fm.adapters.RegridLinear(fill_with_nearest=fill)
    out >> ad >> inp
    inp.ping(); inp.exchange_info()
    sp = gs.data_points
    vals = aff(sp)
    d = vals.reshape(gs.data_shape, order=gs.order)
    if smask is not None: d=np.ma.array(d,mask=smask)
    out.push_data(d, T0)
    got = inp.pull_data(T0).magnitude[0]
    gflat = np.ma.getdata(got).ravel(order=gt.order); gm = np.ma.getmaskarray(got).ravel(order=gt.order)
    tp = gt.data_points
    sm = np.zeros(len(sp),bool) if smask is None else np.asarray(smask).ravel(order=gs.order)
    from scipy.spatial import Delaunay
    hull = Delaunay(sp[~sm])
    inside = hull.find_simplex(tp)>=0
    for j,p in enumerate(tp):
        if inside[j]:
            if gm[j]: return ("inside masked",j)
            if not np.isclose(gflat[j],aff(p)): return ("wrong",j,gflat[j],aff(p))
        else:
            if fill:
                if gm[j]: return ("outside masked with fill",j)
                dist=np.linalg.norm(sp-p,axis=1); dist[sm]=np.inf
                near=np.where(np.isclose(dist,dist.min()))[0]
                if not any(np.isclose(gflat[j],vals[k]) for k in near): return ("fill wrong",j)
            else:
                if not gm[j]: return ("outside not masked",j,p)
    return None
bad=[];n=0
L=list(layouts(2))
for (o1,r1,i1) in L:
  for (o2,r2,i2) in L:
    gs=fm.UniformGrid((4,4),order=o1,axes_reversed=r1,axes_increase=i1,data_location="CELLS")
    gt=fm.UniformGrid((4,5),spacing=(0.7,0.6),origin=(0.1,0.2),order=o2,axes_reversed=r2,axes_increase=i2,data_location="POINTS")
    for trial in range(2):
        sm=np.array([random.random()<0.25 for _ in range(int(np.prod(gs.data_shape)))]).reshape(gs.data_shape)
        if (~sm).sum()<4: continue
        for fill in [False,True]:
            n+=1
            try:
                r=run(gs,gt,sm,fill)
                if r: bad.append(((o1,r1,i1,o2,r2,i2,fill),r))
            except Exception as e:
                bad.append(((o1,r1,i1,o2,r2,i2,fill),("exc",type(e).__name__,str(e)[:100])))
print(n,len(bad)); print(collections.Counter((b[1][0],b[0][6]) for b in bad))
for b in bad[:8]: print(b)
# unstructured source
pts=np.array([[0,0],[1,0],[2,0.2],[0,1],[1,1.1],[2,1],[0.5,2],[1.5,2.1]],float)
from scipy.spatial import Delaunay
tri=Delaunay(pts).simplices
gsU=fm.UnstructuredGrid(pts,tri,[fm.CellType.TRI]*len(tri),data_location="POINTS")
gsP=fm.UnstructuredPoints(pts)
for gs in [gsU,gsP, fm.UnstructuredGrid(pts,tri,[fm.CellType.TRI]*len(tri),data_location="CELLS")]:
  for (o2,r2,i2) in L:
    gt=fm.UniformGrid((4,5),spacing=(0.7,0.6),origin=(-0.1,-0.2),order=o2,axes_reversed=r2,axes_increase=i2,data_location="POINTS")
    for fill in [False,True]:
        try:
            r=run(gs,gt,None,fill)
            if r: print(type(gs).__name__,gs.data_location,(o2,r2,i2),fill,r)
        except Exception as e: print("exc",type(gs).__name__,type(e).__name__,str(e)[:100])
print("done")
