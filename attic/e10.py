from h import *
import tempfile, os
g=fm.UniformGrid((3,4))
for lim in [None,0,60,200]:
    d=tempfile.mkdtemp()
    out = fm.Output("o", fm.Info(time=T0, grid=g, units="m", mask=fm.Mask.FLEX)); inp=fm.Input("i", fm.Info(time=T0, grid=g, units="m")); out>>inp; inp.ping(); inp.exchange_info()
    out.memory_limit=lim; out.memory_location=d
    res=[]
    for k in range(4):
        a=np.ma.array(np.arange(6.).reshape(2,3)+10*k, mask=[[0,1,0],[0,0,k%2]])
        out.push_data(a, T0+H(k))
    for k in range(4):
        try:
            r=inp.pull_data(T0+H(k)); res.append((type(r.magnitude).__name__, str(r.magnitude.ravel())))
        except Exception as e: res.append(("EXC",type(e).__name__,str(e)[:80]))
    print(lim, res, os.listdir(d)); out.finalize(); print("  after finalize", os.listdir(d))
