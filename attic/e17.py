from h import *
import pint, itertools
from finam.data import tools as T
U = T.UNITS
cat = ["m","km","mm","cm","m2","m**2","km2","m3","L","s","min","h","d","day","year","yr","m/s","km/h","mm/d","mm/h","m s-1","kg","g","kg/m3","kg m-2 s-1","mm/s","K","degC","degF","Celsius","%","percent","1","","dimensionless","ppm","psu","degrees_north","degree","rad","Pa","hPa","bar","N/m2","W/m2","J","kJ","W m-2","mol","mol/L","m3/s","L/s","1/s","Hz","s-1","1/d","kg/kg","g/kg","m/m","mm/m", "degC/m", "K/km"]
print(len(cat))
errs=[]
ref={}
for a,b in itertools.product(cat,repeat=2):
    ua,ub=U.Unit(a),U.Unit(b)
    refc = ua.dimensionality==ub.dimensionality
    try:
        c=T.compatible_units(a,b); e=T.equivalent_units(a,b)
    except Exception as ex:
        errs.append((a,b,type(ex).__name__,str(ex)[:80])); continue
    if c!=refc: errs.append((a,b,"compat",c,refc))
    if c:
        try:
            v=(1.0*ua).to(ub).magnitude
            if bool(e)!=(v==1.0) : errs.append((a,b,"equiv",e,v))
        except Exception as ex: errs.append((a,b,"convexc",str(ex)[:60]))
print(len(errs)); 
for x in errs[:40]: print(x)
