import multiprocessing as mp, collections, time, sys
import protoA as P
mats=[(("F",d),) for d in [1,2,3,4,5,6,7]]+[(("F",a),("F",6-a)) for a in [0.5,1,2,3,4,5]]+[(("F",2),("S",),("F",4))]+[(("P",1),),(("P",2),),(("U",),),(("F",6),("L",)),(("L",),("F",6)),()]
def job(args):
    mat,order,offs=args
    specs=[("A",[1,2,3],dict(ins=["i"],outs=["o"],pull_initial=False,start=offs[0])),("B",[1,2,3],dict(ins=["i"],outs=["o"],start=offs[1]))]
    links=[P.Link("A","o","B","i",()),P.Link("B","o","A","i",mat)]
    s,tr,out,ex=P.explore(specs,links,order,6)
    return mat,order,offs,s,tr,dict(out),{k:str(v)[:200] for k,v in ex.items()}
if __name__=="__main__":
    t0=time.time()
    jobs=[(m,o,offs) for m in mats for o in [("A","B"),("B","A")] for offs in [(0,0),(0,1),(2,0)]]
    with mp.Pool(16) as pool: res=pool.map(job,jobs,chunksize=1)
    tot=collections.Counter(); exs={}
    for mat,order,offs,s,tr,out,ex in res:
        cls=" ".join(f"{t[0]}{t[1] if len(t)>1 else ''}" for t in mat)
        tot[("states",)]+=s; tot[("trans",)]+=tr
        for k,v in out.items(): tot[(cls,k)]+=v; exs.setdefault((cls,k),ex.get(k))
    print("sec",time.time()-t0)
    for k,v in sorted(tot.items(),key=str): print(k,v,(exs.get(k) or "")[:160] if k[-1] not in("done","circular") else "")
