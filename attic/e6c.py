import itertools, collections, multiprocessing as mp
from h import *
import e6
from e6 import CN
def shapes(n):
    names=[chr(65+k) for k in range(n)]
    per=[]
    for has_in in [0,1]:
        for outm in [None,("decl","const"),("decl","pull:i"),("from_in:i","const"),("from_in:i","pull:i")]:
            if outm and ("i" in outm[0] or "i" in outm[1]) and not has_in: continue
            if not has_in and not outm: continue
            per.append((has_in,outm))
    for combo in itertools.product(per,repeat=n):
        srcs=[k for k in range(n) if combo[k][1]]
        ins=[k for k in range(n) if combo[k][0]]
        if not srcs and ins: continue
        for assign in itertools.product(srcs,repeat=len(ins)):
            if any(a==i for a,i in zip(assign,ins)): continue
            for offs in ([(0,)*n] if n==3 else itertools.product([0,1],repeat=n)):
                if min(offs)!=0: continue
                specs=[(names[k],{"i":"decl"} if combo[k][0] else {}, {"o":combo[k][1]} if combo[k][1] else {}, offs[k]) for k in range(n)]
                links=[((names[a],"o"),(names[i],"i")) for a,i in zip(assign,ins)]
                yield specs,links
def fixpoint(specs,links):
    names=[s[0] for s in specs]; sp={s[0]:s for s in specs}
    src={b:a for (a,_),(b,_) in links}; cons=collections.defaultdict(list)
    for (a,_),(b,_) in links: cons[a].append(b)
    F=set(); changed=True
    def has(x): return x in F
    while changed:
        changed=False
        def add(x):
            nonlocal changed
            if x not in F: F.add(x); changed=True
        for X in names:
            s=sp[X]; hi="i" in s[1]; ho="o" in s[2]
            if ho:
                im,dm=s[2]["o"]
                if im=="decl" or has(("inInfo",X)): add(("outPushed",X))
                if has(("outPushed",X)) and all(has(("inInfo",Z)) for Z in cons[X]): add(("outComplete",X))
                if has(("outComplete",X)) and (dm=="const" or has(("pulled",X))): add(("data",X))
            if hi:
                Y=src[X]
                if has(("outPushed",Y)): add(("inInfo",X))
                if has(("inInfo",X)) and has(("data",Y)): add(("pulled",X))
    stuck=[]
    for X in names:
        s=sp[X]; need=[]
        if "i" in s[1]: need+= [("inInfo",X),("pulled",X)]
        if "o" in s[2]: need+= [("outPushed",X),("outComplete",X),("data",X)]
        if not all(n in F for n in need): stuck.append(X)
    return tuple(sorted(stuck))
def job(arg):
    specs,links=arg
    exp=fixpoint(specs,links)
    outs=set()
    for perm in itertools.permutations(range(len(specs))):
        r=e6.outcome(specs,links,perm,tuple(range(len(links))))
        outs.add(r[0] if r[0]!="CIRC" else r)
    ok = (outs=={"OK"} and not exp) or (outs=={("CIRC",exp)} and exp)
    return ok,(specs,links,exp,[str(o)[:120] for o in outs])
if __name__=="__main__":
    allsh=list(shapes(2))+list(shapes(3))
    print(len(allsh))
    with mp.Pool(16) as p: res=p.map(job,allsh,chunksize=8)
    bad=[r for ok,r in res if not ok]
    print("bad",len(bad)); 
    for b in bad[:8]: print(b)
    print(collections.Counter(len(r[2]) for ok,r in res))
