from e16 import *
import random
random.seed(1)
bad=[]; n=0
dim=2
L=list(layouts(2))
for (o1,r1,i1) in L:
  for (o2,r2,i2) in L:
    gs=fm.UniformGrid((4,3),order=o1,axes_reversed=r1,axes_increase=i1,data_location="CELLS")
    gt=fm.UniformGrid((3,4),spacing=(0.7,0.9),origin=(0.1,0.2),order=o2,axes_reversed=r2,axes_increase=i2,data_location="POINTS")
    for trial in range(4):
        sm=np.array([random.random()<0.3 for _ in range(int(np.prod(gs.data_shape)))]).reshape(gs.data_shape)
        if sm.all(): sm.flat[0]=False
        tm=np.array([random.random()<0.3 for _ in range(int(np.prod(gt.data_shape)))]).reshape(gt.data_shape)
        for (a,b) in [(sm,None),(None,tm),(sm,tm)]:
            n+=1
            try:
                r=run(gs,gt,a,b)
                if r: bad.append(((o1,r1,i1,o2,r2,i2,a is not None,b is not None),r))
            except Exception as e:
                bad.append(((o1,r1,i1,o2,r2,i2,a is not None,b is not None),("exc",type(e).__name__,str(e)[:100])))
print(n,len(bad)); print(collections.Counter((b[1][0],b[0][6],b[0][7]) for b in bad))
for b in bad[:8]: print(b)
# identity between layouts of same grid
bad=[];n=0
for (o1,r1,i1) in L:
  for (o2,r2,i2) in L:
    for loc in ["CELLS","POINTS"]:
      gs=fm.UniformGrid((4,3),order=o1,axes_reversed=r1,axes_increase=i1,data_location=loc)
      gt=fm.UniformGrid((4,3),order=o2,axes_reversed=r2,axes_increase=i2,data_location=loc)
      n+=1
      try:
        r=run(gs,gt)
        if r: bad.append(r)
      except Exception as e: bad.append(("exc",type(e).__name__,str(e)[:100]))
print("identity",n,len(bad),bad[:3])
